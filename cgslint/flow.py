"""Reaching definitions and canonical access paths (terms)."""
import ast

from . import AnalysisError
from .model import dotted_name

# ---------------------------------------------------------------------------
# terms: hashable nested tuples
# ---------------------------------------------------------------------------
#  ('const', v) ('param', name) ('ext', dotted) ('fn', fq) ('cls', fq) ('modconst', 'mod:name')
#  ('builtin', name) ('unresolved', name)
#  ('attr', base, name) ('sub', base, key) ('slice', lo, hi, step)
#  ('call', site, func, args, kwargs)      site = (lineno, col)
#  ('iter', site, iterable)                element of the iterable of loop/comprehension at site
#  ('tuple', elts) ('list', elts) ('set', elts) ('dict', ((k, v), ...))
#  ('binop', op, l, r) ('unop', op, x) ('boolop', op, vals) ('cmp', ops, operands)
#  ('ifexp', t, a, b) ('var', name, defsites)   several / unstable reaching definitions
#  ('comp', kind, site, elt, gens) ('fstr', parts) ('lambda', site) ('star', x) ('opaque', text, site)
#  ('entryattr', 'self.x')   value of self.x on entry (no store in this function reaches)
#  ('excvar', site) ('withvar', site) ('effect', 'self.x', site)  value after a call that may store it


def const(v):
    try:
        hash(v)
    except TypeError:
        v = repr(v)
    return ("const", v)


def show(t):
    """Readable, position-free rendering of a term (used for keys and reports)."""
    if not isinstance(t, tuple) or not t:
        return repr(t)
    k = t[0]
    if k == "const":
        return repr(t[1])
    if k in ("param",):
        return t[1]
    if k in ("ext", "fn", "cls", "modconst", "builtin", "unresolved"):
        return t[1].split(":")[-1] if k in ("fn", "cls", "modconst") else t[1]
    if k == "attr":
        return "%s.%s" % (show(t[1]), t[2])
    if k == "sub":
        return "%s[%s]" % (show(t[1]), show(t[2]))
    if k == "slice":
        return "%s:%s%s" % ("" if t[1] is None else show(t[1]), "" if t[2] is None else show(t[2]),
                            "" if t[3] is None else ":" + show(t[3]))
    if k == "call":
        args = [show(a) for a in t[3]] + ["%s=%s" % (n, show(v)) for n, v in t[4]]
        return "%s(%s)" % (show(t[2]), ", ".join(args))
    if k == "iter":
        return "each(%s)" % show(t[2])
    if k in ("tuple", "list", "set"):
        o, c = {"tuple": "()", "list": "[]", "set": "{}"}[k]
        return o + ", ".join(show(e) for e in t[1]) + c
    if k == "dict":
        return "{" + ", ".join("%s: %s" % (show(a), show(b)) for a, b in t[1]) + "}"
    if k == "binop":
        return "(%s %s %s)" % (show(t[2]), t[1], show(t[3]))
    if k == "unop":
        return "(%s %s)" % (t[1], show(t[2]))
    if k == "boolop":
        return "(" + (" %s " % t[1]).join(show(v) for v in t[2]) + ")"
    if k == "cmp":
        s = show(t[2][0])
        for op, x in zip(t[1], t[2][1:]):
            s += " %s %s" % (op, show(x))
        return "(" + s + ")"
    if k == "ifexp":
        return "(%s if %s else %s)" % (show(t[2]), show(t[1]), show(t[3]))
    if k == "var":
        return "%s~" % t[1]
    if k == "entryattr":
        return t[1]
    if k == "effect":
        return "%s'" % t[1]
    if k == "comp":
        return "<%scomp %s for %s>" % (t[1], show(t[3]), ", ".join(show(g) for g in t[4]))
    if k == "fstr":
        return "f'" + "".join(p[1] if p[0] == "const" and isinstance(p[1], str) else "{" + show(p) + "}" for p in t[1]) + "'"
    if k == "star":
        return "*" + show(t[1])
    if k == "opaque":
        return "<%s>" % t[1]
    return "<%s>" % k


OPS = {ast.Add: "+", ast.Sub: "-", ast.Mult: "*", ast.Div: "/", ast.FloorDiv: "//", ast.Mod: "%",
       ast.Pow: "**", ast.BitAnd: "&", ast.BitOr: "|", ast.BitXor: "^", ast.LShift: "<<", ast.RShift: ">>",
       ast.MatMult: "@", ast.Not: "not", ast.USub: "-", ast.UAdd: "+", ast.Invert: "~", ast.And: "and",
       ast.Or: "or", ast.Eq: "==", ast.NotEq: "!=", ast.Lt: "<", ast.LtE: "<=", ast.Gt: ">", ast.GtE: ">=",
       ast.Is: "is", ast.IsNot: "is not", ast.In: "in", ast.NotIn: "not in"}


def walk_term(t):
    yield t
    if isinstance(t, tuple):
        for x in t[1:]:
            if isinstance(x, tuple):
                if x and isinstance(x[0], str):
                    yield from walk_term(x)
                else:
                    for y in x:
                        if isinstance(y, tuple):
                            if y and isinstance(y[0], str):
                                yield from walk_term(y)
                            else:
                                for z in y:
                                    if isinstance(z, tuple) and z and isinstance(z[0], str):
                                        yield from walk_term(z)


# ---------------------------------------------------------------------------
# definitions
# ---------------------------------------------------------------------------

class Def:
    __slots__ = ("id", "var", "node", "kind", "value", "path", "ast")

    def __init__(self, id_, var, node, kind, value=None, path=(), ast_node=None):
        self.id = id_
        self.var = var
        self.node = node      # cfg node id
        self.kind = kind      # param unbound entryattr assign aug for with except import del def effect walrus
        self.value = value    # ast expr (assign/aug/for(iterable)/walrus)
        self.path = path      # unpack path: tuple of ints / ('star', i, nafter)
        self.ast = ast_node

    def __repr__(self):
        return "<def %s@%d %s>" % (self.var, self.node, self.kind)


def _comp_scopes(node):
    return isinstance(node, (ast.ListComp, ast.SetComp, ast.DictComp, ast.GeneratorExp, ast.Lambda))


def iter_scope(node):
    """ast.walk that does not descend into nested scopes (comprehensions,
    lambdas, nested defs) but yields them."""
    stack = [node]
    while stack:
        n = stack.pop()
        yield n
        if (n is not node and (_comp_scopes(n) or isinstance(n, (ast.FunctionDef, ast.AsyncFunctionDef, ast.ClassDef)))) or \
                (n is node and isinstance(n, (ast.ListComp, ast.SetComp, ast.DictComp, ast.GeneratorExp))):
            # the first iterable of a comprehension is evaluated in the enclosing scope
            if isinstance(n, (ast.ListComp, ast.SetComp, ast.DictComp, ast.GeneratorExp)):
                stack.append(n.generators[0].iter)
            continue
        stack.extend(ast.iter_child_nodes(n))


class Flow:
    def __init__(self, fi):
        self.fi = fi
        self.repo = fi.module.repo
        self.cfg = fi.cfg
        self.self_name = None
        if fi.cls and not fi.is_staticmethod and fi.positional_params:
            self.self_name = fi.positional_params[0]
        self.local_imports = {}
        self.locals = self._collect_locals()
        self.defs = []
        self.gen = {n.id: [] for n in self.cfg.nodes}
        self._attr_vars = set()
        self._build_defs()
        self.IN = None
        self.OUT = None
        self._solve()
        self._memo = {}

    # -- locals -----------------------------------------------------------
    def _collect_locals(self):
        names = set(self.fi.params)
        declared_global = set()
        for n in iter_scope(self.fi.node):
            if n is self.fi.node:
                continue
            if isinstance(n, (ast.Global, ast.Nonlocal)):
                declared_global.update(n.names)
            elif isinstance(n, ast.Name) and isinstance(n.ctx, (ast.Store, ast.Del)):
                names.add(n.id)
            elif isinstance(n, (ast.FunctionDef, ast.AsyncFunctionDef, ast.ClassDef)):
                names.add(n.name)
            elif isinstance(n, (ast.Import, ast.ImportFrom)):
                for al in n.names:
                    local = (al.asname or al.name).split(".")[0]
                    names.add(local)
                    if isinstance(n, ast.Import):
                        self.local_imports[local] = al.name if al.asname else al.name.split(".")[0]
                    elif not n.level:
                        self.local_imports[local] = (n.module or "") + "." + al.name
            elif isinstance(n, ast.ExceptHandler) and n.name:
                names.add(n.name)
        # comprehension targets are stored names found by iter_scope only at
        # top-level of the comprehension node, which iter_scope does not enter
        return names - declared_global

    def is_local(self, name):
        return name in self.locals

    # -- definitions ----------------------------------------------------------
    def _new_def(self, var, node, kind, value=None, path=(), ast_node=None):
        d = Def(len(self.defs), var, node, kind, value, path, ast_node)
        self.defs.append(d)
        self.gen[node].append(d)
        return d

    def _target_defs(self, target, node, kind, value, path, ast_node):
        if isinstance(target, ast.Name):
            self._new_def(target.id, node, kind, value, path, ast_node)
        elif isinstance(target, (ast.Tuple, ast.List)):
            n = len(target.elts)
            star = [i for i, e in enumerate(target.elts) if isinstance(e, ast.Starred)]
            for i, e in enumerate(target.elts):
                if isinstance(e, ast.Starred):
                    self._target_defs(e.value, node, kind, value, path + (("star", i, n - i - 1),), ast_node)
                elif star and i > star[0]:
                    self._target_defs(e, node, kind, value, path + (i - n,), ast_node)
                else:
                    self._target_defs(e, node, kind, value, path + (i,), ast_node)
        elif isinstance(target, ast.Attribute) and isinstance(target.value, ast.Name) and \
                self.self_name and target.value.id == self.self_name:
            var = "self." + target.attr
            self._attr_vars.add(var)
            self._new_def(var, node, kind, value, path, ast_node)
        # other targets (subscript stores, attribute stores on other objects) are mutations, not definitions

    def _self_attr_effects(self, fi, seen=None):
        """self attributes a method may store (directly or through self.method calls)."""
        cache = self.repo.__dict__.setdefault("_attr_effects", {})
        if fi.fq in cache:
            return cache[fi.fq]
        seen = seen or set()
        if fi.fq in seen:
            return set()
        seen = seen | {fi.fq}
        out = set()
        sn = fi.positional_params[0] if (fi.cls and not fi.is_staticmethod and fi.positional_params) else None
        if sn:
            for n in ast.walk(fi.node):
                if isinstance(n, ast.Attribute) and isinstance(n.ctx, (ast.Store, ast.Del)) and \
                        isinstance(n.value, ast.Name) and n.value.id == sn:
                    out.add("self." + n.attr)
                elif isinstance(n, ast.Call) and isinstance(n.func, ast.Attribute) and \
                        isinstance(n.func.value, ast.Name) and n.func.value.id == sn:
                    q = fi.cls + "." + n.func.attr
                    callee = fi.module.functions.get(q)
                    if callee is not None and callee is not fi:
                        out |= self._self_attr_effects(callee, seen)
        cache[fi.fq] = out
        return out

    def _build_defs(self):
        cfg = self.cfg
        for p in self.fi.params:
            self._new_def(p, cfg.entry, "param")
        for name in sorted(self.locals - set(self.fi.params)):
            self._new_def(name, cfg.entry, "unbound")
        for n in cfg.nodes:
            st = n.ast
            if n.kind == "stmt":
                if isinstance(st, ast.Assign):
                    for tgt in st.targets:
                        self._target_defs(tgt, n.id, "assign", st.value, (), st)
                elif isinstance(st, ast.AnnAssign):
                    if st.value is not None:
                        self._target_defs(st.target, n.id, "assign", st.value, (), st)
                elif isinstance(st, ast.AugAssign):
                    self._target_defs(st.target, n.id, "aug", st, (), st)
                elif isinstance(st, (ast.With, ast.AsyncWith)):
                    for item in st.items:
                        if item.optional_vars is not None:
                            self._target_defs(item.optional_vars, n.id, "with", None, (), st)
                elif isinstance(st, (ast.Import, ast.ImportFrom)):
                    for al in st.names:
                        self._new_def((al.asname or al.name).split(".")[0], n.id, "import", None, (), st)
                elif isinstance(st, (ast.FunctionDef, ast.AsyncFunctionDef, ast.ClassDef)):
                    self._new_def(st.name, n.id, "def", None, (), st)
                elif isinstance(st, ast.Delete):
                    for tgt in st.targets:
                        if isinstance(tgt, ast.Name):
                            self._new_def(tgt.id, n.id, "del", None, (), st)
            elif n.kind == "for":
                self._target_defs(st.target, n.id, "for", st.iter, (), st)
            elif n.kind == "except":
                if st.name:
                    self._new_def(st.name, n.id, "except", None, (), st)
            # walrus and self-method effects inside the expressions owned by this node
            parts = []
            if n.kind == "stmt" and not isinstance(st, (ast.FunctionDef, ast.AsyncFunctionDef, ast.ClassDef)):
                parts = [st]
                if isinstance(st, (ast.With, ast.AsyncWith)):
                    parts = [i.context_expr for i in st.items]
            elif n.kind in ("if", "while"):
                parts = [st.test]
            elif n.kind == "for":
                parts = [st.iter]
            for part in parts:
                for sub in iter_scope(part):
                    if isinstance(sub, ast.NamedExpr) and isinstance(sub.target, ast.Name):
                        self._new_def(sub.target.id, n.id, "walrus", sub.value, (), sub)
                    if self.self_name and isinstance(sub, ast.Call) and isinstance(sub.func, ast.Attribute) and \
                            isinstance(sub.func.value, ast.Name) and sub.func.value.id == self.self_name and self.fi.cls:
                        callee = self.fi.module.functions.get(self.fi.cls + "." + sub.func.attr)
                        if callee is not None:
                            for var in sorted(self._self_attr_effects(callee)):
                                self._attr_vars.add(var)
                                self._new_def(var, n.id, "effect", None, (), sub)
        # pseudo variables for self attributes that are read
        if self.self_name:
            for sub in ast.walk(self.fi.node):
                if isinstance(sub, ast.Attribute) and isinstance(sub.value, ast.Name) and sub.value.id == self.self_name:
                    self._attr_vars.add("self." + sub.attr)
            for var in sorted(self._attr_vars):
                self._new_def(var, cfg.entry, "entryattr")

    # -- solve ------------------------------------------------------------------
    def _solve(self):
        cfg = self.cfg
        IN = {n.id: {} for n in cfg.nodes}
        OUT = {n.id: {} for n in cfg.nodes}

        def none_free(nid, inset, label):
            """behind `if x is None: <leave>` (on the edge on which x is known not to be None) the definitions `x = None` do
            not reach: a result that is a value or None, tested before it is used"""
            node = cfg.nodes[nid]
            if node.kind != "if" or label not in ("T", "F"):
                return inset
            t = node.ast.test
            neg = False
            if isinstance(t, ast.UnaryOp) and isinstance(t.op, ast.Not):
                t, neg = t.operand, True
            name, edge = None, None
            if isinstance(t, ast.Compare) and len(t.ops) == 1 and isinstance(t.left, ast.Name) and isinstance(t.comparators[0], ast.Constant) and \
                    t.comparators[0].value is None and isinstance(t.ops[0], (ast.Is, ast.IsNot)):
                name = t.left.id
                edge = "F" if isinstance(t.ops[0], ast.Is) else "T"
            elif isinstance(t, ast.Name):
                name, edge = t.id, "T"
            if name is None or name not in inset:
                return inset
            if neg:
                edge = "F" if edge == "T" else "T"
            if label != edge:
                return inset
            ids = inset[name]
            keep = frozenset(i for i in ids if not (self.defs[i].kind == "assign" and not self.defs[i].path and
                                                    isinstance(self.defs[i].value, ast.Constant) and self.defs[i].value.value is None))
            if not keep or keep == ids:
                return inset
            out = dict(inset)
            out[name] = keep
            return out

        def transfer(nid, inset, label):
            inset = none_free(nid, inset, label)
            gens = self.gen[nid]
            if not gens:
                return inset
            node = cfg.nodes[nid]
            if node.kind == "for" and label != "iter":
                gens = [d for d in gens if d.kind != "for"]
            out = dict(inset)
            if label == "exc":
                for d in gens:
                    out[d.var] = out.get(d.var, frozenset()) | {d.id}
                return out
            by_var = {}
            for d in gens:
                by_var.setdefault(d.var, []).append(d.id)
            for var, ids in by_var.items():
                # several defs of one var in one node (a, a = ...): the last wins; effect defs accumulate
                kinds = {self.defs[i].kind for i in ids}
                if kinds <= {"effect"}:
                    out[var] = frozenset(ids)
                else:
                    out[var] = frozenset([ids[-1]])
            return out

        work = [cfg.entry]
        inq = {cfg.entry}
        # entry in-set is empty; its gens define params/unbound
        while work:
            nid = work.pop()
            inq.discard(nid)
            inset = IN[nid]
            for dst, label in cfg.succ[nid]:
                out = transfer(nid, inset, label)
                cur = IN[dst]
                changed = False
                for var, ids in out.items():
                    old = cur.get(var)
                    if old is None:
                        cur[var] = ids
                        changed = True
                    elif not ids <= old:
                        cur[var] = old | ids
                        changed = True
                if changed and dst not in inq:
                    work.append(dst)
                    inq.add(dst)
        self.IN = IN
        # a for-loop's iterable is evaluated once, on entry: definitions made in its own body do not reach it
        self.IN_entry = {}
        for n in cfg.nodes:
            if n.kind == "for":
                body = cfg.loops.get(n.id, set())
                acc = {}
                for p, label in cfg.pred[n.id]:
                    if p in body:
                        continue
                    for var, ids in transfer(p, IN[p], label).items():
                        acc[var] = acc.get(var, frozenset()) | ids
                self.IN_entry[n.id] = acc

    def reaching(self, var, at, loop_entry=False):
        """Definitions of var reaching the *entry* of cfg node `at` (for a for-node with
        loop_entry: reaching the evaluation of its iterable)."""
        src = self.IN_entry[at] if loop_entry and at in self.IN_entry else self.IN[at]
        return [self.defs[i] for i in sorted(src.get(var, ()))]

    def alternatives(self, term):
        """The canonical terms of the definitions merged in a ('var', name, ids) term (a name with several reaching
        definitions), or [term].  None when one of the definitions has no value term (augmented, deleted, unbound)."""
        if isinstance(term, tuple) and term and term[0] == "ifexp":
            # a conditional expression is one of its arms
            a, b = self.alternatives(term[2]), self.alternatives(term[3])
            return None if a is None or b is None else a + b
        if not (isinstance(term, tuple) and term and term[0] == "var" and len(term) == 3 and term[2]):
            return [term]
        out = []
        for i in term[2]:
            d = self.defs[i]
            if d.kind in ("assign", "walrus") and d.value is not None:
                out.append(self._apply_path(self._canon(d.value, d.node, {}, (d.id,)), d.path))
            elif d.kind == "param":
                out.append(("param", d.var))
            else:
                return None
        return out

    def possibly_unbound(self):
        """(name, ast Name node, cfg node id) for local reads that an 'unbound' or 'del'
        definition reaches."""
        out = []
        for n in self.cfg.nodes:
            parts = self._read_parts(n)
            for part in parts:
                for sub in iter_scope(part):
                    if isinstance(sub, ast.Name) and isinstance(sub.ctx, ast.Load) and sub.id in self.locals:
                        ds = self.reaching(sub.id, n.id)
                        if any(d.kind in ("unbound", "del") for d in ds):
                            # (x := f()) and x.attr: the assignment expression in the same expression is evaluated first
                            # when it stands to the left of the read (left-to-right evaluation of operands)
                            earlier = [w for w in iter_scope(part) if isinstance(w, ast.NamedExpr) and isinstance(w.target, ast.Name) and w.target.id == sub.id
                                       and (w.end_lineno, w.end_col_offset) <= (sub.lineno, sub.col_offset)]
                            if earlier:
                                continue
                            # a if (x := f()) > 0 else x: the test of a conditional expression is evaluated before its arms
                            in_arm = False
                            for ie in iter_scope(part):
                                if isinstance(ie, ast.IfExp) and any(w is sub for arm in (ie.body, ie.orelse) for w in ast.walk(arm)) and \
                                        any(isinstance(w, ast.NamedExpr) and isinstance(w.target, ast.Name) and w.target.id == sub.id for w in ast.walk(ie.test)):
                                    in_arm = True
                            if in_arm:
                                continue
                            out.append((sub.id, sub, n.id))
        return out

    def _read_parts(self, n):
        st = n.ast
        if n.kind == "stmt":
            if isinstance(st, (ast.FunctionDef, ast.AsyncFunctionDef, ast.ClassDef)):
                return []
            if isinstance(st, (ast.With, ast.AsyncWith)):
                return [i.context_expr for i in st.items]
            return [st]
        if n.kind in ("if", "while"):
            return [st.test]
        if n.kind == "for":
            return [st.iter]
        if n.kind == "except":
            return [st.type] if st.type is not None else []
        return []

    # -- canonical terms ----------------------------------------------------------
    def canon(self, expr, at=None, env=None):
        """Canonical term of ast expression `expr` evaluated at cfg node `at`
        (default: the node owning the expression).  The iterable of a for statement is
        canonicalised as evaluated on loop entry."""
        if at is None:
            at = self.cfg.node_for(expr)
        node = self.cfg.nodes[at]
        le = node.kind == "for" and any(x is expr for x in ast.walk(node.ast.iter))
        if not env and node.ast is not None:
            env = self._comprehension_env(node.ast, expr, at)
        return self._canon(expr, at, env or {}, (), loop_entry=le)

    def _comprehension_env(self, root, expr, at):
        """bindings of the comprehensions that enclose `expr` below `root` (outermost first): a name bound by a comprehension
        stands for an element of what it ranges over"""
        chain = []

        def find(n, path):
            if n is expr:
                chain.extend(path)
                return True
            for c in ast.iter_child_nodes(n):
                if find(c, path + ([n] if isinstance(n, (ast.ListComp, ast.SetComp, ast.DictComp, ast.GeneratorExp)) else [])):
                    return True
            return False
        try:
            if not find(root, []) or not chain:
                return {}
        except RecursionError:
            return {}
        env = {}
        for comp in chain:
            for g in comp.generators:
                # a generator's own iterable / conditions see the bindings of the generators before it
                if any(x is expr for x in ast.walk(g.iter)):
                    return env
                it = self._canon(g.iter, at, env, ())
                self._bind_target(g.target, ("iter", self._site(g), it), env)
        return env

    def _site(self, node):
        return (getattr(node, "lineno", 0), getattr(node, "col_offset", 0))

    def _apply_path(self, term, path):
        for p in path:
            if isinstance(p, tuple):
                term = ("sub", term, ("slice", const(p[1]), const(-p[2]) if p[2] else None, None))
            else:
                term = self.subscript(term, const(p))
        return term

    def subscript(self, base, key):
        # the attribute dict that `for n, attrs in G.nodes(data=True)` yields is G.nodes[n]
        c = None
        if base[0] == "iter" and key == ("const", 1):
            c = base[2]
        elif base[0] == "sub" and base[2] == ("const", 1) and base[1][0] == "iter" and key == ("const", 1):
            # ... also under enumerate: for i, (n, attrs) in enumerate(G.nodes(data=True))
            en = base[1][2]
            if en[0] == "call" and en[2] == ("builtin", "enumerate") and en[3]:
                c = en[3][0]
        if c is not None:
            if c[0] == "call" and c[2][0] == "attr" and c[2][2] == "nodes" and not c[3] and c[4] == (("data", ("const", True)),):
                return ("sub", ("attr", c[2][1], "nodes"), ("sub", base, ("const", 0)))
            if c[0] == "call" and c[2][0] == "attr" and c[2][2] == "nodes" and c[3] == (("const", True),) and not c[4]:
                return ("sub", ("attr", c[2][1], "nodes"), ("sub", base, ("const", 0)))
            # ... and so is the value in `for n, attrs in G.nodes.items()` (the same for G.edges.items())
            if c[0] == "call" and c[2][0] == "attr" and c[2][2] == "items" and not c[3] and not c[4] and c[2][1][0] == "attr" and c[2][1][2] in ("nodes", "edges"):
                return ("sub", c[2][1], ("sub", base, ("const", 0)))
        # the data dict that `for a, b, data in G.edges(data=True)` yields is G.edges[(a, b)]
        if base[0] == "iter" and key == ("const", 2):
            c = base[2]
            while c[0] == "call" and c[2] in (("builtin", "list"), ("builtin", "tuple")) and len(c[3]) == 1 and not c[4]:
                c = c[3][0]
            if c[0] == "call" and c[2][0] == "attr" and c[2][2] == "edges" and \
                    ((not c[3] and c[4] == (("data", ("const", True)),)) or (c[3] == (("const", True),) and not c[4])):
                return ("sub", ("attr", c[2][1], "edges"), ("tuple", (("sub", base, ("const", 0)), ("sub", base, ("const", 1)))))
        # a, b = (f(x) for x in pair[:2]): component i of an unfiltered comprehension over a sequence of known length is its
        # element expression with the variable standing for the i-th element of that sequence
        if base[0] == "comp" and base[1] in ("list", "gen") and len(base[4]) == 1 and not base[4][0][2] and key[0] == "const" and \
                isinstance(key[1], int) and not isinstance(key[1], bool) and key[1] >= 0:
            var = base[4][0][1]
            coll = var[2] if var[0] == "iter" else None
            item = None
            if coll is not None and coll[0] in ("tuple", "list") and key[1] < len(coll[1]) and not any(x[0] == "star" for x in coll[1]):
                item = coll[1][key[1]]
            elif coll is not None and coll[0] == "sub" and coll[2][0] == "slice" and coll[2][1] in (None, ("const", 0)) and coll[2][3] is None and \
                    coll[2][2] is not None and coll[2][2][0] == "const" and isinstance(coll[2][2][1], int) and key[1] < coll[2][2][1]:
                item = self.subscript(coll[1], key)
            if item is not None:
                def subst(t):
                    if t == var:
                        return item
                    if isinstance(t, tuple):
                        new = tuple(subst(x) for x in t)
                        if new and new[0] == "sub" and len(new) == 3 and isinstance(new[1], tuple) and isinstance(new[2], tuple):
                            return self.subscript(new[1], new[2])      # (a, b, c)[2] folds to c
                        return new
                    return t
                return subst(base[3])
        # the i-th component of an element of a comprehension / generator that yields tuple literals
        if base[0] == "iter" and key[0] == "const" and isinstance(key[1], int) and not isinstance(key[1], bool) and base[2][0] == "comp" and \
                base[2][1] in ("list", "gen", "generator") and base[2][3][0] == "tuple" and 0 <= key[1] < len(base[2][3][1]) and \
                not any(x[0] == "star" for x in base[2][3][1]):
            return base[2][3][1][key[1]]
        # the i-th component of an element of itertools.product(A, B, ...) is an element of the i-th factor
        if base[0] == "iter" and key[0] == "const" and isinstance(key[1], int) and not isinstance(key[1], bool):
            c = base[2]
            if c[0] == "call" and c[2] in (("ext", "itertools.product"),) and not c[4] and 0 <= key[1] < len(c[3]) and len(c[3]) >= 2:
                return ("iter", base[1], c[3][key[1]])
        # X[a:][i] is X[a + i] for non-negative constants
        if base[0] == "sub" and base[2][0] == "slice" and key[0] == "const" and isinstance(key[1], int) and not isinstance(key[1], bool) and key[1] >= 0:
            lo, hi, step = base[2][1], base[2][2], base[2][3]
            if hi is None and step is None and lo is not None and lo[0] == "const" and isinstance(lo[1], int) and lo[1] >= 0:
                return self.subscript(base[1], ("const", lo[1] + key[1]))
        if base[0] in ("tuple", "list") and key[0] == "const" and isinstance(key[1], int):
            elts = base[1]
            if -len(elts) <= key[1] < len(elts) and not any(e[0] == "star" for e in elts):
                return elts[key[1]]
        if base[0] == "dict" and key[0] == "const":
            for k, v in base[1]:
                if k == key:
                    return v
        return ("sub", base, key)

    def _stable(self, d, at):
        """All variables read by the definition's value have the same reaching
        definitions at the definition and at the use."""
        if d.value is None:
            return True
        value = d.value
        if d.kind == "aug":
            return False
        for sub in iter_scope(value):
            var = None
            if isinstance(sub, ast.Name) and isinstance(sub.ctx, ast.Load) and sub.id in self.locals:
                var = sub.id
            elif self.self_name and isinstance(sub, ast.Attribute) and isinstance(sub.value, ast.Name) and \
                    sub.value.id == self.self_name and isinstance(sub.ctx, ast.Load):
                var = "self." + sub.attr
            if var is None:
                continue
            a = self.IN[d.node].get(var, frozenset())
            b = self.IN[at].get(var, frozenset())
            if d.kind == "for":
                # the iterable is evaluated once before the loop; the body may rebind without effect
                continue
            if a != b:
                return False
        return True

    def _var_term(self, var, at, env, stack, loop_entry=False):
        ds = self.reaching(var, at, loop_entry)
        live = [d for d in ds if d.kind not in ("unbound",)]
        if len(live) == 1 and len(ds) >= 1:
            d = live[0]
            if d.id in stack:
                return ("var", var, (d.id,))
            if d.kind == "param":
                return ("param", var)
            if d.kind == "entryattr":
                return ("entryattr", var)
            if d.kind == "effect":
                return ("effect", var, self._site(d.ast))
            if d.kind in ("assign", "walrus"):
                t = self._canon(d.value, d.node, {}, stack + (d.id,))
                return self._apply_path(t, d.path)
            if d.kind == "for":
                it = self._canon(d.value, d.node, {}, stack + (d.id,), loop_entry=True)
                return self._apply_path(("iter", self._site(d.ast), it), d.path)
            if d.kind == "except":
                return ("excvar", self._site(d.ast))
            if d.kind == "with":
                return ("withvar", self._site(d.ast))
        return ("var", var, tuple(d.id for d in ds))

    def diamond(self, term, at):
        """A name with two reaching definitions that form `if c: x = a` / `else: x = b` (or `x = b` in front of a one-armed
        if), read at cfg node `at` behind the if: the conditional expression `a if c else b`; None otherwise."""
        if not (isinstance(term, tuple) and term and term[0] == "var" and len(term) == 3 and len(term[2]) == 2):
            return None
        live = [self.defs[i] for i in term[2]]
        return self._diamond(term[1], live, at, ())

    def _if_arm_of(self, d):
        """(if cfg node, 'T'|'F') when definition d is a statement directly in an arm of an if statement."""
        if d.ast is None:
            return None
        for n in self.cfg.nodes:
            if n.kind != "if":
                continue
            if any(st is d.ast for st in n.ast.body):
                return n, "T"
            if any(st is d.ast for st in n.ast.orelse):
                return n, "F"
        return None

    def _test_stable(self, ifnode, at):
        for sub in iter_scope(ifnode.ast.test):
            if isinstance(sub, ast.Name) and isinstance(sub.ctx, ast.Load) and sub.id in self.locals:
                if self.IN[ifnode.id].get(sub.id, frozenset()) != self.IN[at].get(sub.id, frozenset()):
                    return False
        return True

    def _diamond(self, var, live, at, stack):
        """`if c: x = a` / `else: x = b` (or `x = b` in front of a one-armed if) read behind the if is `a if c else b`."""
        if any(d.kind != "assign" or d.path or d.id in stack for d in live):
            return None
        a, b = live
        ia, ib = self._if_arm_of(a), self._if_arm_of(b)
        ifnode = None
        if ia and ib and ia[0] is ib[0] and ia[1] != ib[1]:
            ifnode = ia[0]
            yes, no = (a, b) if ia[1] == "T" else (b, a)
        elif ia and (not ib or ib[0] is not ia[0]) and self.cfg.dominates(b.node, ia[0].id) and b.node != ia[0].id:
            ifnode = ia[0]
            yes, no = (a, b) if ia[1] == "T" else (b, a)
        elif ib and (not ia or ia[0] is not ib[0]) and self.cfg.dominates(a.node, ib[0].id) and a.node != ib[0].id:
            ifnode = ib[0]
            yes, no = (b, a) if ib[1] == "T" else (a, b)
        if ifnode is None or not self.cfg.dominates(ifnode.id, at) or ifnode.id == at:
            return None
        if not self._test_stable(ifnode, at) or not self._stable(a, at) or not self._stable(b, at):
            return None
        # the defining statement must be the only definition of var in its arm
        for d in live:
            arm = self._if_arm_of(d)
            if arm and arm[0] is ifnode:
                stmts = ifnode.ast.body if arm[1] == "T" else ifnode.ast.orelse
                n_defs = 0
                for st in stmts:
                    for sub in ast.walk(st):
                        if isinstance(sub, ast.Name) and sub.id == var and isinstance(sub.ctx, (ast.Store, ast.Del)):
                            n_defs += 1
                if n_defs != 1:
                    return None
        st2 = stack + (a.id, b.id)
        test = self._canon(ifnode.ast.test, ifnode.id, {}, st2)
        return ("ifexp", test, self._canon(yes.value, yes.node, {}, st2), self._canon(no.value, no.node, {}, st2))

    def _canon(self, e, at, env, stack, loop_entry=False):
        c = lambda x: self._canon(x, at, env, stack, loop_entry)
        if e is None:
            return None
        if isinstance(e, ast.Constant):
            return const(e.value)
        if isinstance(e, ast.Name):
            if e.id in env:
                return env[e.id]
            if e.id in self.locals:
                return self._var_term(e.id, at, env, stack, loop_entry)
            t = self.repo.resolve_name(self.fi.module, e.id)
            if t is None:
                return ("unresolved", e.id)
            if t.kind == "repo":
                return ("fn", t.name)
            if t.kind == "class":
                return ("cls", t.name)
            if t.kind == "constant":
                return ("modconst", t.name)
            if t.kind == "ext":
                return ("ext", t.name)
            if t.kind == "builtin":
                return ("builtin", e.id)
            if t.kind == "repomodule":
                return ("ext", "cgsmiles." + t.name)
            return ("unresolved", e.id)
        if isinstance(e, ast.Attribute):
            if self.self_name and isinstance(e.value, ast.Name) and e.value.id == self.self_name and \
                    self.self_name not in env:
                var = "self." + e.attr
                if var in self._attr_vars:
                    t = self._var_term(var, at, env, stack, loop_entry)
                    if t[0] == "entryattr":
                        return ("attr", ("param", self.self_name), e.attr)
                    return t
            base = c(e.value)
            if base[0] == "ext":
                return ("ext", base[1] + "." + e.attr)
            return ("attr", base, e.attr)
        if isinstance(e, ast.Subscript):
            return self.subscript(c(e.value), c(e.slice))
        if isinstance(e, ast.Slice):
            return ("slice", c(e.lower), c(e.upper), c(e.step))
        if isinstance(e, ast.Call):
            args = []
            for a in e.args:
                ta = c(a)
                # f(*(x, y)) is f(x, y)
                if ta[0] == "star" and ta[1][0] in ("tuple", "list") and not any(x[0] == "star" for x in ta[1][1]):
                    args.extend(ta[1][1])
                else:
                    args.append(ta)
            args = tuple(args)
            kwargs = tuple(sorted(((k.arg or "**"), c(k.value)) for k in e.keywords))
            args, kwargs = self._normalise_call(e, args, kwargs)
            f = c(e.func)
            # a compiled pattern's method is the module-level function with the pattern in front:
            # re.compile(P).findall(s) is re.findall(P, s), also through a module-level constant
            if f[0] == "attr" and f[2] in ("findall", "finditer", "match", "search", "fullmatch", "split", "sub", "subn"):
                recv = f[1]
                if recv[0] == "modconst":
                    mname, cname = recv[1].split(":", 1)
                    try:
                        mod = self.repo.module(mname)
                        cv = mod.constants.get(cname)
                    except Exception:
                        cv = None
                    if isinstance(cv, ast.Call) and isinstance(cv.func, ast.Attribute) and cv.func.attr == "compile" and isinstance(cv.func.value, ast.Name) and \
                            cv.func.value.id == "re" and cv.args and all(isinstance(a, ast.Constant) for a in cv.args) and not cv.keywords:
                        recv = ("call", None, ("ext", "re.compile"), tuple(const(a.value) for a in cv.args), ())
                if recv[0] == "call" and recv[2] == ("ext", "re.compile") and len(recv[3]) == 1 and not recv[4]:
                    return ("call", self._site(e), ("ext", "re." + f[2]), (recv[3][0],) + args, kwargs)
            # tuple(f(x) for x in (a, b)) is (f(a), f(b)): a comprehension over a literal sequence written out
            if f in (("builtin", "tuple"), ("builtin", "list")) and len(args) == 1 and not kwargs and args[0][0] == "comp" and args[0][1] in ("gen", "list") and \
                    len(args[0][4]) == 1 and not args[0][4][0][2]:
                var = args[0][4][0][1]
                coll = var[2] if var[0] == "iter" else None
                if coll is not None and coll[0] in ("tuple", "list") and 0 < len(coll[1]) <= 4 and not any(x[0] == "star" for x in coll[1]):
                    elts = tuple(self.subscript(args[0], const(i)) for i in range(len(coll[1])))
                    return ("tuple" if f[1] == "tuple" else "list", elts)
            # zip(tuple(D), tuple(D.values())) is D.items(): keys and values of one dict in step
            if f == ("builtin", "zip") and len(args) == 2 and not kwargs:
                def unwrap(x):
                    while x[0] == "call" and x[2] in (("builtin", "tuple"), ("builtin", "list")) and len(x[3]) == 1 and not x[4]:
                        x = x[3][0]
                    return x
                ka, va = unwrap(args[0]), unwrap(args[1])
                if va[0] == "call" and va[2][0] == "attr" and va[2][2] == "values" and not va[3] and not va[4]:
                    D = va[2][1]
                    if ka[0] == "call" and ka[2] == ("attr", D, "keys") and not ka[3] and not ka[4]:
                        ka = D
                    if ka == D and D[0] in ("var", "call", "param", "attr", "sub"):
                        return ("call", self._site(e), ("attr", D, "items"), (), ())
            return ("call", self._site(e), f, args, kwargs)
        if isinstance(e, ast.Starred):
            return ("star", c(e.value))
        if isinstance(e, ast.Tuple):
            return ("tuple", tuple(c(x) for x in e.elts))
        if isinstance(e, ast.List):
            return ("list", tuple(c(x) for x in e.elts))
        if isinstance(e, ast.Set):
            return ("set", tuple(c(x) for x in e.elts))
        if isinstance(e, ast.Dict):
            return ("dict", tuple((c(k) if k is not None else ("const", "**"), c(v)) for k, v in zip(e.keys, e.values)))
        if isinstance(e, ast.BinOp):
            return ("binop", OPS[type(e.op)], c(e.left), c(e.right))
        if isinstance(e, ast.UnaryOp):
            if isinstance(e.op, ast.USub) and isinstance(e.operand, ast.Constant) and isinstance(e.operand.value, (int, float)):
                return const(-e.operand.value)
            return ("unop", OPS[type(e.op)], c(e.operand))
        if isinstance(e, ast.BoolOp):
            return ("boolop", OPS[type(e.op)], tuple(c(v) for v in e.values))
        if isinstance(e, ast.Compare):
            return ("cmp", tuple(OPS[type(o)] for o in e.ops), tuple(c(x) for x in [e.left] + e.comparators))
        if isinstance(e, ast.IfExp):
            return ("ifexp", c(e.test), c(e.body), c(e.orelse))
        if isinstance(e, ast.NamedExpr):
            return c(e.value)
        if isinstance(e, ast.JoinedStr):
            parts = []
            for v in e.values:
                if isinstance(v, ast.FormattedValue):
                    parts.append(c(v.value))
                else:
                    parts.append(c(v))
            return ("fstr", tuple(parts))
        if isinstance(e, (ast.ListComp, ast.SetComp, ast.GeneratorExp, ast.DictComp)):
            env2 = dict(env)
            gens = []
            for g in e.generators:
                it = self._canon(g.iter, at, env2, stack)
                elem = ("iter", self._site(g), it)
                self._bind_target(g.target, elem, env2)
                conds = tuple(self._canon(i, at, env2, stack) for i in g.ifs)
                gens.append(("gen", elem, conds))
            if isinstance(e, ast.DictComp):
                elt = ("tuple", (self._canon(e.key, at, env2, stack), self._canon(e.value, at, env2, stack)))
                kind = "dict"
            else:
                elt = self._canon(e.elt, at, env2, stack)
                kind = {ast.ListComp: "list", ast.SetComp: "set", ast.GeneratorExp: "gen"}[type(e)]
            return ("comp", kind, self._site(e), elt, tuple(gens))
        if isinstance(e, ast.Lambda):
            return ("lambda", self._site(e))
        if isinstance(e, ast.AugAssign):
            # value of an augmented assignment: target op value
            return ("binop", OPS[type(e.op)], c(_as_load(e.target)), c(e.value))
        return ("opaque", type(e).__name__, self._site(e))

    def _normalise_call(self, e, args, kwargs):
        """For calls of repository functions: keyword arguments that continue the positional
        sequence of the callee's signature are moved into their positional slots, so that
        f(a, b) and f(x=a, y=b) have the same canonical form."""
        if not kwargs or any(a[0] == "star" for a in args) or any(k == "**" for k, _ in kwargs):
            return args, kwargs
        try:
            t = self.repo.resolve_call(self.fi, e)
        except Exception:
            return args, kwargs
        if t.kind not in ("repo", "class") or t.fi is None:
            return args, kwargs
        params = list(t.fi.positional_params)
        if t.fi.cls and not t.fi.is_staticmethod:
            params = params[1:]
        if t.fi.node.args.vararg is not None:
            return args, kwargs
        kw = dict(kwargs)
        args = list(args)
        while len(args) < len(params) and params[len(args)] in kw and params[len(args)] not in t.bound:
            args.append(kw.pop(params[len(args)]))
        return tuple(args), tuple(sorted(kw.items()))

    def _bind_target(self, target, term, env):
        if isinstance(target, ast.Name):
            env[target.id] = term
        elif isinstance(target, (ast.Tuple, ast.List)):
            for i, el in enumerate(target.elts):
                if isinstance(el, ast.Starred):
                    self._bind_target(el.value, ("sub", term, ("slice", const(i), None, None)), env)
                else:
                    self._bind_target(el, self.subscript(term, const(i)), env)

    # -- convenience ----------------------------------------------------------------
    def calls(self, pred=None):
        """All ast.Call nodes in the function (own scope and comprehensions) with cfg node id."""
        out = []
        for sub in ast.walk(self.fi.node):
            if isinstance(sub, ast.Call) and id(sub) in self.cfg.owner:
                if pred is None or pred(sub):
                    out.append((sub, self.cfg.owner[id(sub)]))
        out.sort(key=lambda x: (x[0].lineno, x[0].col_offset))
        return out

    def calls_to(self, *names):
        """Calls whose resolved target name (fq for repo functions, dotted for
        externals, attribute name for methods) is in names."""
        out = []
        for call, nid in self.calls():
            t = self.repo.resolve_call(self.fi, call)
            if t.name in names or (t.kind == "repo" and t.fi.qualname in names) or \
                    (t.kind == "repo" and t.fi.name in names):
                out.append((call, nid, t))
        return out


def _as_load(target):
    t = ast.parse(ast.unparse(target), mode="eval").body
    ast.copy_location(t, target)
    for sub in ast.walk(t):
        ast.copy_location(sub, target)
    return t
