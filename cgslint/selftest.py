"""Checker self-validation (thorough tier).

Every corpus entry is a small source edit that still compiles.  'break' entries break exactly
one rule instance: the rule must fire on the edited copy.  'benign' entries leave the behaviour
unchanged: the rule must stay silent.  Edits are applied to a scratch copy of /repo's *current*
package sources outside /repo and /verif; the copy is removed straight afterwards.  An entry
whose anchor text is not found in the current source is skipped and reported.  Self-validation
results are evidence about the checker; they never turn into a VIOLATION of the property.
"""
import ast
import json
import os
import shutil
import sys
import tempfile
from concurrent.futures import ProcessPoolExecutor

from . import AnalysisError, PACKAGE
from .report import VERIF

CORPUS = os.path.join(VERIF, "selftest", "corpus.json")


def load_corpus():
    with open(CORPUS) as fh:
        return json.load(fh)


def _scratch_base():
    for cand in (os.environ.get("CGSLINT_SCRATCH"), os.environ.get("TMPDIR"), "/tmp", "/dev/shm"):
        if cand and os.path.isdir(cand) and os.access(cand, os.W_OK):
            real = os.path.realpath(cand)
            if not real.startswith("/repo") and not real.startswith("/verif"):
                return cand
    raise AnalysisError("no writable scratch directory outside /repo and /verif")


def run_entry(args):
    entry, repo_root = args
    from .model import Repo
    from . import props
    d = tempfile.mkdtemp(prefix="cgslint_mut_", dir=_scratch_base())
    try:
        src = os.path.join(repo_root, PACKAGE)
        dst = os.path.join(d, PACKAGE)
        shutil.copytree(src, dst, ignore=shutil.ignore_patterns("tests", "__pycache__", "*.pyc"))
        for f, old, new in entry["edits"]:
            p = os.path.join(dst, f)
            if not os.path.exists(p):
                return {"id": entry["id"], "status": "skipped", "why": "file %s not found" % f}
            with open(p) as fh:
                s = fh.read()
            if s.count(old) != 1:
                return {"id": entry["id"], "status": "skipped", "why": "anchor text found %d times in %s" % (s.count(old), f)}
            s = s.replace(old, new)
            try:
                compile(s, p, "exec")
            except SyntaxError as err:
                return {"id": entry["id"], "status": "skipped", "why": "edited source does not compile: %s" % err}
            with open(p, "w") as fh:
                fh.write(s)
        repo = Repo(d)
        rule = props.R[entry["rule"]]
        try:
            obs = rule(repo, "quick")
        except AnalysisError as err:
            return {"id": entry["id"], "status": "analysis-error", "why": str(err)[:200]}
        except Exception as err:
            return {"id": entry["id"], "status": "internal-error", "why": "%s: %s" % (type(err).__name__, str(err)[:200])}
        fails = [o for o in obs if o.ok is False]
        # known findings of the unchanged tree are not "firing"
        from . import report
        known = report.load_known()
        fails = [o for o in fails if not any(report.is_known(known, pid, o) for pid in props.PROPERTIES)]
        undec = [o for o in obs if o.ok is None]
        status = "fired" if fails else ("undecided" if undec else "silent")
        return {"id": entry["id"], "status": status,
                "obligations": sorted({o.oid + ":" + o.instance for o in (fails or undec)})[:4]}
    finally:
        shutil.rmtree(d, ignore_errors=True)


class _Renamer(ast.NodeTransformer):
    def __init__(self, names):
        self.names = names

    def visit_Name(self, n):
        if n.id in self.names:
            n.id = n.id + "_v"
        return n

    def visit_ExceptHandler(self, n):
        if n.name in self.names:
            n.name = n.name + "_v"
        self.generic_visit(n)
        return n


class _InvertIf(ast.NodeTransformer):
    """if c: A else: B  ->  if not c: B else: A   (only plain if/else, no elif chains)"""

    def visit_If(self, n):
        self.generic_visit(n)
        if n.orelse and not (len(n.orelse) == 1 and isinstance(n.orelse[0], ast.If)):
            n.test, n.body, n.orelse = ast.UnaryOp(op=ast.Not(), operand=n.test), n.orelse, n.body
        return n


class _RangeAndAug(ast.NodeTransformer):
    """range(0, n) -> range(n);  x += e -> x = x + e for plain names;  a == b -> b == a"""

    def visit_Call(self, n):
        self.generic_visit(n)
        if isinstance(n.func, ast.Name) and n.func.id == "range" and len(n.args) == 2 and isinstance(n.args[0], ast.Constant) and n.args[0].value == 0:
            n.args = [n.args[1]]
        return n

    def visit_AugAssign(self, n):
        self.generic_visit(n)
        if isinstance(n.target, ast.Name):
            return ast.Assign(targets=[ast.Name(id=n.target.id, ctx=ast.Store())],
                              value=ast.BinOp(left=ast.Name(id=n.target.id, ctx=ast.Load()), op=n.op, right=n.value), lineno=n.lineno)
        return n

    def visit_Compare(self, n):
        self.generic_visit(n)
        if len(n.ops) == 1 and isinstance(n.ops[0], (ast.Eq, ast.NotEq)) and isinstance(n.comparators[0], ast.Constant) and not isinstance(n.left, ast.Constant):
            pass   # keep literals on the right: `0 == x` is unusual style
        return n


class _Temporaries(ast.NodeTransformer):
    """Introduce a temporary for the value of every plain `name = <call>` assignment:  t = call; name = t"""

    def __init__(self):
        self.k = 0

    def _split(self, body):
        out = []
        for st in body:
            if isinstance(st, ast.Assign) and len(st.targets) == 1 and isinstance(st.targets[0], ast.Name) and isinstance(st.value, ast.Call):
                self.k += 1
                tmp = "_tmp%d" % self.k
                out.append(ast.Assign(targets=[ast.Name(id=tmp, ctx=ast.Store())], value=st.value, lineno=st.lineno))
                out.append(ast.Assign(targets=st.targets, value=ast.Name(id=tmp, ctx=ast.Load()), lineno=st.lineno))
            else:
                out.append(st)
        return out

    def generic_visit(self, node):
        super().generic_visit(node)
        for field in ("body", "orelse", "finalbody"):
            b = getattr(node, field, None)
            if isinstance(b, list) and b and isinstance(b[0], ast.stmt):
                setattr(node, field, self._split(b))
        return node


class _Keywordise(ast.NodeTransformer):
    """f(a, b) -> f(x=a, y=b) for calls by bare name to functions defined in the same package (signature known)."""

    def __init__(self, sigs):
        self.sigs = sigs

    def visit_Call(self, n):
        self.generic_visit(n)
        if isinstance(n.func, ast.Name) and n.func.id in self.sigs and n.args and not any(isinstance(a, ast.Starred) for a in n.args):
            params = self.sigs[n.func.id]
            if len(n.args) <= len(params):
                given = {k.arg for k in n.keywords}
                new_kw = []
                for p_, a in zip(params, n.args):
                    if p_ in given:
                        return n
                    new_kw.append(ast.keyword(arg=p_, value=a))
                n.keywords = new_kw + n.keywords
                n.args = []
        return n


class _DeMorgan(ast.NodeTransformer):
    """not (a == b) <-> a != b is left alone; `a != b` -> `not a == b`, `x is not None` -> `not x is None`"""

    def visit_Compare(self, n):
        self.generic_visit(n)
        if len(n.ops) == 1 and isinstance(n.ops[0], ast.NotEq):
            return ast.UnaryOp(op=ast.Not(), operand=ast.Compare(left=n.left, ops=[ast.Eq()], comparators=n.comparators))
        if len(n.ops) == 1 and isinstance(n.ops[0], ast.IsNot):
            return ast.UnaryOp(op=ast.Not(), operand=ast.Compare(left=n.left, ops=[ast.Is()], comparators=n.comparators))
        if len(n.ops) == 1 and isinstance(n.ops[0], ast.NotIn):
            return ast.UnaryOp(op=ast.Not(), operand=ast.Compare(left=n.left, ops=[ast.In()], comparators=n.comparators))
        return n


_PACKAGE_SIGS = {}


class _Literals(ast.NodeTransformer):
    """{} <-> dict(), [] <-> list() for empty containers"""

    def visit_Dict(self, n):
        self.generic_visit(n)
        if not n.keys:
            return ast.Call(func=ast.Name(id="dict", ctx=ast.Load()), args=[], keywords=[])
        return n

    def visit_List(self, n):
        self.generic_visit(n)
        if not n.elts and isinstance(n.ctx, ast.Load):
            return ast.Call(func=ast.Name(id="list", ctx=ast.Load()), args=[], keywords=[])
        return n


def _pure(e):
    return all(isinstance(x, (ast.Name, ast.Constant, ast.Attribute, ast.Subscript, ast.Load, ast.UnaryOp, ast.USub, ast.BinOp, ast.Add, ast.Sub, ast.Slice,
                              ast.Call, ast.Tuple))
               and not (isinstance(x, ast.Call) and not (isinstance(x.func, ast.Name) and x.func.id == "len")) for x in ast.walk(e))


class _MirrorCompare(ast.NodeTransformer):
    """a < b -> b > a (and the other three order comparisons) when both sides are free of side effects"""
    MIRROR = {ast.Lt: ast.Gt, ast.Gt: ast.Lt, ast.LtE: ast.GtE, ast.GtE: ast.LtE}

    def visit_Compare(self, n):
        self.generic_visit(n)
        if len(n.ops) == 1 and type(n.ops[0]) in self.MIRROR and _pure(n.left) and _pure(n.comparators[0]):
            return ast.Compare(left=n.comparators[0], ops=[self.MIRROR[type(n.ops[0])]()], comparators=[n.left])
        return n


class _ExtractReturn(ast.NodeTransformer):
    """return <expr>  ->  result_ = <expr>; return result_   (for anything but a bare name / constant)"""

    def visit_FunctionDef(self, fn):
        self.generic_visit(fn)
        return fn

    def visit_Return(self, n):
        if n.value is None or isinstance(n.value, (ast.Name, ast.Constant)):
            return n
        tmp = "result_"
        return [ast.Assign(targets=[ast.Name(id=tmp, ctx=ast.Store())], value=n.value, lineno=n.lineno),
                ast.Return(value=ast.Name(id=tmp, ctx=ast.Load()))]


class _SplitAnd(ast.NodeTransformer):
    """if a and b: X  (no else)  ->  if a: if b: X"""

    def visit_If(self, n):
        self.generic_visit(n)
        if not n.orelse and isinstance(n.test, ast.BoolOp) and isinstance(n.test.op, ast.And) and len(n.test.values) == 2:
            a, b = n.test.values
            return ast.If(test=a, body=[ast.If(test=b, body=n.body, orelse=[])], orelse=[])
        return n


def _transform_tree(kind, tree):
    simple = {"literals": _Literals, "mirror-compare": _MirrorCompare, "extract-return": _ExtractReturn, "split-and": _SplitAnd}
    if kind in simple:
        tree = simple[kind]().visit(tree)
        ast.fix_missing_locations(tree)
        return tree
    if kind == "keyword-args":
        tree = _Keywordise(_PACKAGE_SIGS).visit(tree)
        ast.fix_missing_locations(tree)
        return tree
    if kind == "negated-compare":
        tree = _DeMorgan().visit(tree)
        ast.fix_missing_locations(tree)
        return tree
    if kind == "invert-if":
        tree = _InvertIf().visit(tree)
        ast.fix_missing_locations(tree)
        return tree
    if kind == "range-aug":
        tree = _RangeAndAug().visit(tree)
        ast.fix_missing_locations(tree)
        return tree
    if kind == "temporaries":
        for fn in ast.walk(tree):
            if isinstance(fn, ast.FunctionDef):
                _Temporaries().visit(fn)
        ast.fix_missing_locations(tree)
        return tree
    if kind == "rename-locals":
        for fn in ast.walk(tree):
            if isinstance(fn, ast.FunctionDef):
                params = {a.arg for a in fn.args.args + fn.args.kwonlyargs + fn.args.posonlyargs}
                if fn.args.vararg:
                    params.add(fn.args.vararg.arg)
                if fn.args.kwarg:
                    params.add(fn.args.kwarg.arg)
                stored = set()
                for n in ast.walk(fn):
                    if isinstance(n, ast.Name) and isinstance(n.ctx, (ast.Store, ast.Del)):
                        stored.add(n.id)
                    if isinstance(n, ast.ExceptHandler) and n.name:
                        stored.add(n.name)
                _Renamer(stored - params).visit(fn)
    return tree


GLOBAL_BENIGN = ("reformat", "rename-locals", "invert-if", "range-aug", "temporaries", "keyword-args", "negated-compare", "literals", "mirror-compare",
                 "extract-return", "split-and", "all-composed")
COMPOSED = ("keyword-args", "negated-compare", "invert-if", "range-aug", "split-and", "mirror-compare", "literals", "extract-return", "temporaries", "rename-locals")


def run_global_benign(args):
    """Whole-package behaviour-preserving transformations generated from the current source:
    'reformat' (ast round trip: layout, comments, parentheses, quotes) and 'rename-locals'
    (every local variable of every function renamed).  All rules of the property must give the
    same verdict as on the untouched source."""
    kind, prop, repo_root = args
    from .model import Repo
    from . import props, report
    d = tempfile.mkdtemp(prefix="cgslint_benign_", dir=_scratch_base())
    try:
        src = os.path.join(repo_root, PACKAGE)
        dst = os.path.join(d, PACKAGE)
        shutil.copytree(src, dst, ignore=shutil.ignore_patterns("tests", "__pycache__", "*.pyc"))
        if kind in ("keyword-args", "all-composed"):
            _PACKAGE_SIGS.clear()
            for f in os.listdir(dst):
                if f.endswith(".py"):
                    with open(os.path.join(dst, f)) as fh:
                        t0 = ast.parse(fh.read())
                    for st in t0.body:
                        if isinstance(st, ast.FunctionDef) and not st.args.vararg:
                            _PACKAGE_SIGS[st.name] = [a.arg for a in st.args.posonlyargs + st.args.args]
        for f in os.listdir(dst):
            if f.endswith(".py"):
                p = os.path.join(dst, f)
                with open(p) as fh:
                    tree = ast.parse(fh.read())
                if kind == "all-composed":
                    for k2 in COMPOSED:
                        tree = ast.parse(ast.unparse(_transform_tree(k2, tree)))
                else:
                    tree = _transform_tree(kind, tree)
                with open(p, "w") as fh:
                    fh.write(ast.unparse(tree) + "\n")
        repo = Repo(d)
        known = report.load_known()
        out = {"kind": kind, "new_failures": [], "errors": []}
        for rname in props.PROPERTIES[prop]["rule_names"]:
            try:
                obs = props.R[rname](repo, "quick")
            except AnalysisError as err:
                out["errors"].append("%s: %s" % (rname, str(err)[:160]))
                continue
            except Exception as err:
                out["errors"].append("%s: internal %s: %s" % (rname, type(err).__name__, str(err)[:160]))
                continue
            for o in obs:
                if o.ok is False and not report.is_known(known, prop, o):
                    out["new_failures"].append("%s:%s %s" % (o.oid, o.instance, o.construct[:80]))
                elif o.ok is None:
                    out["errors"].append("%s: undecided %s:%s %s" % (rname, o.oid, o.instance, o.reason[:100]))
        return out
    finally:
        shutil.rmtree(d, ignore_errors=True)


def run_for(prop, repo_root, jobs=None):
    from . import props
    spec = props.PROPERTIES[prop]
    corpus = [e for e in load_corpus() if e["rule"] in spec["rule_names"]]
    if not corpus:
        return {"selftest_total": 0}
    jobs = jobs or min(16, os.cpu_count() or 4, len(corpus))
    results = []
    if jobs <= 1:
        results = [run_entry((e, repo_root)) for e in corpus]
    else:
        with ProcessPoolExecutor(max_workers=jobs) as ex:
            results = list(ex.map(run_entry, [(e, repo_root) for e in corpus]))
    glob = [run_global_benign((k, prop, repo_root)) for k in GLOBAL_BENIGN]
    by_id = {r["id"]: r for r in results}
    out = {"global_benign": glob, "breaking_total": 0, "breaking_fired": 0, "benign_total": 0, "benign_silent": 0, "skipped": 0, "problems": [], "details": []}
    for e in corpus:
        r = by_id[e["id"]]
        rec = {"id": e["id"], "rule": e["rule"], "kind": e["kind"], "status": r["status"], "note": e.get("note", ""),
               "edit": (e["edits"][0][2] or "<deleted>")[:70]}
        if "obligations" in r:
            rec["obligations"] = r["obligations"]
        if "why" in r:
            rec["why"] = r["why"]
        out["details"].append(rec)
        if r["status"] == "skipped":
            out["skipped"] += 1
            continue
        if e["kind"] in ("break", "undecided"):
            # 'undecided': a breaking edit for which the rule's honest answer is "cannot decide" (exit 2, no VIOLATION line)
            out["breaking_total"] += 1
            if r["status"] == ("fired" if e["kind"] == "break" else "undecided"):
                out["breaking_fired"] += 1
            else:
                out["problems"].append("%s (%s): breaking edit not reported as expected (%s)" % (e["id"], e["rule"], r["status"]))
        else:
            out["benign_total"] += 1
            if r["status"] == "silent":
                out["benign_silent"] += 1
            else:
                out["problems"].append("%s (%s): benign edit reported (%s %s)" % (e["id"], e["rule"], r["status"], r.get("obligations", r.get("why", ""))))
    for g in glob:
        out["benign_total"] += 1
        if not g["new_failures"] and not g["errors"]:
            out["benign_silent"] += 1
        else:
            out["problems"].append("global benign transformation '%s' changed the verdict: %s" % (g["kind"], (g["new_failures"] + g["errors"])[:3]))
    return out


if __name__ == "__main__":
    # python -m cgslint.selftest [repo] : whole corpus, summary per rule
    from . import props
    root = sys.argv[1] if len(sys.argv) > 1 else "/repo"
    corpus = load_corpus()
    with ProcessPoolExecutor(max_workers=16) as ex:
        results = list(ex.map(run_entry, [(e, root) for e in corpus]))
    bad = 0
    for e, r in zip(corpus, results):
        want = {"break": "fired", "undecided": "undecided"}.get(e["kind"], "silent")
        flag = "ok " if r["status"] == want else ("skip" if r["status"] == "skipped" else "BAD")
        if flag == "BAD":
            bad += 1
        if flag != "ok " or "-v" in sys.argv:
            print(flag, e["id"], e["rule"], e["kind"], r["status"], r.get("why", r.get("obligations", "")), "|", (e["edits"][0][2] or "<deleted>")[:60].replace("\n", "\\n"))
    print("%d entries, %d problems" % (len(corpus), bad))
    sys.exit(1 if bad else 0)
