"""Effect summaries: which parameters / self attributes a function may mutate, at which
distance, and which values it stores elsewhere without severing them from their origin.

Distance is counted in subscript / iteration steps from a root (attribute steps are free):
for a networkx graph G, distance 0 is the graph structure, 1 an attribute dict
(G.nodes[n], G.edges[e]), 2 an attribute value.
"""
import ast

from .flow import show, walk_term
from .rules.common import is_call, method_call, callee_name

METHOD_MUTATORS = {
    "append", "extend", "insert", "remove", "pop", "clear", "sort", "reverse", "update", "setdefault", "popitem",
    "add", "discard", "difference_update", "intersection_update", "symmetric_difference_update",
    "add_node", "add_nodes_from", "add_edge", "add_edges_from", "add_weighted_edges_from", "remove_node",
    "remove_nodes_from", "remove_edge", "remove_edges_from", "clear_edges", "__setitem__", "__delitem__",
    "AddAtom", "AddBond", "SetFormalCharge",
}
# external functions mutating an argument: name -> list of (arg index, depths)
EXT_MUTATORS = {
    "networkx.set_node_attributes": [(0, (1,))],
    "networkx.set_edge_attributes": [(0, (1,))],
    "pysmiles.smiles_helper.fill_valence": [(0, (0, 1))],
    "pysmiles.smiles_helper.add_explicit_hydrogens": [(0, (0, 1))],
    "pysmiles.smiles_helper.remove_explicit_hydrogens": [(0, (0, 1))],
    "pysmiles.remove_explicit_hydrogens": [(0, (0, 1))],
    "pysmiles.smiles_helper.correct_aromatic_rings": [(0, (1,))],
    "pysmiles.smiles_helper._annotate_ez_isomers": [(0, (1,))],
    "pysmiles.smiles_helper.mark_aromatic_atoms": [(0, (1,))],
    "pysmiles.smiles_helper.mark_aromatic_edges": [(0, (1,))],
    "pysmiles.smiles_helper.increment_bond_orders": [(0, (1,))],
    "random.shuffle": [(0, (0,))],
}
SEVERING = {"int", "float", "str", "bool", "len", "sum", "any", "all", "isinstance", "repr", "abs", "round", "hash",
            "id", "type", "ord", "chr", "format", "range"}
SHALLOW_1 = {"list", "tuple", "dict", "set", "frozenset", "sorted"}
VIEW_METHODS = {"items", "values", "keys", "get", "nodes", "edges", "neighbors", "adj", "data", "__getitem__"}
ELEMENT_FUNCS = {"random.choice", "next", "min", "max"}
VIEW_FUNCS = {"enumerate", "zip", "reversed", "iter", "itertools.combinations", "itertools.product", "itertools.chain", "filter"}
GRAPH_HINTS = {"nodes", "edges", "add_node", "add_edge", "neighbors", "has_edge", "add_nodes_from", "add_edges_from"}


def is_root(t):
    return t[0] == "param" or (t[0] == "attr" and t[1][0] == "param" and t[1][1] in ("self", "cls"))


class Sharing:
    """share(term) -> dict root -> (distance, fresh) : the term denotes an object `distance`
    steps inside root's object graph; if fresh > 0 the object is a copy that is fresh for
    `fresh` more steps."""

    def __init__(self, repo, fi, returns=None):
        self.repo = repo
        self.fi = fi
        self.returns = returns or {}
        self.graph_typed = self._graph_typed_terms()

    def _graph_typed_terms(self):
        out = set()
        fl = self.fi.flow
        for sub in ast.walk(self.fi.node):
            if isinstance(sub, ast.Attribute) and sub.attr in GRAPH_HINTS and id(sub) in fl.cfg.owner:
                try:
                    out.add(fl.canon(sub.value, fl.cfg.owner[id(sub)]))
                except Exception:
                    pass
        return out

    def share(self, t, _depth=0):
        if not isinstance(t, tuple):
            return {}
        k = t[0]
        if is_root(t):
            return {t: (0, 0)}
        if k == "var" and len(t) > 2 and t[2]:
            # several reaching definitions: the value may be any of them
            guard = self.__dict__.setdefault("_expanding", set())
            if (t[1], t[2]) in guard or len(guard) > 6:
                return {}
            guard.add((t[1], t[2]))
            try:
                return self._share_var(t)
            finally:
                guard.discard((t[1], t[2]))
        return self._share_rest(t)

    def _share_var(self, t):
        fl = self.fi.flow
        _depth = 0
        out = {}
        if True:
            for did in t[2]:
                d = fl.defs[did]
                sh = {}
                if d.kind == "param":
                    sh = {("param", d.var): (0, 0)}
                elif d.kind in ("assign", "walrus") and d.value is not None:
                    try:
                        sh = self.share(fl._apply_path(fl.canon(d.value, d.node), d.path))
                    except RecursionError:
                        sh = {}
                elif d.kind == "for" and d.value is not None:
                    try:
                        sh = self.share(fl._apply_path(("iter", None, fl.canon(d.value, d.node)), d.path))
                    except RecursionError:
                        sh = {}
                for r, v in sh.items():
                    if r not in out or v[1] < out[r][1]:
                        out[r] = v
        return out

    def _share_rest(self, t):
        k = t[0]
        if k in ("const", "ext", "fn", "cls", "modconst", "builtin", "unresolved", "lambda", "excvar", "withvar", "opaque",
                 "fstr", "cmp", "boolop", "unop", "var", "effect", "entryattr", "slice"):
            return {}
        if k == "attr":
            return self.share(t[1])
        if k in ("sub", "iter"):
            base = t[1] if k == "sub" else t[2]
            return {r: ((d + 1, 0) if f == 0 else (d + 1, f - 1)) for r, (d, f) in self.share(base).items()}
        if k in ("tuple", "list", "set"):
            out = {}
            for e in t[1]:
                for r, (d, f) in self.share(e).items():
                    # a display is a fresh container holding the element: one step away
                    cur = out.get(r)
                    val = (max(d - 1, 0), f + 1)
                    out[r] = val if cur is None or val[1] < cur[1] else cur
            return out
        if k == "dict":
            out = {}
            for _, v in t[1]:
                for r, (d, f) in self.share(v).items():
                    val = (max(d - 1, 0), f + 1)
                    cur = out.get(r)
                    out[r] = val if cur is None or val[1] < cur[1] else cur
            return out
        if k == "star":
            return self.share(t[1])
        if k == "ifexp":
            out = dict(self.share(t[2]))
            for r, v in self.share(t[3]).items():
                if r not in out or v[1] < out[r][1]:
                    out[r] = v
            return out
        if k == "binop":
            out = dict(self.share(t[2]))
            for r, (d, f) in self.share(t[3]).items():
                if r not in out:
                    out[r] = (d, f)
            # a + b builds a fresh container of shared elements
            return {r: (d, max(f, 1)) for r, (d, f) in out.items()}
        if k == "comp":
            out = {}
            for r, (d, f) in self.share(t[3]).items():
                out[r] = (max(d - 1, 0), f + 1)
            return out
        if k == "call":
            return self._share_call(t)
        return {}

    def _share_call(self, t):
        name = callee_name(t) or ""
        f = t[2]
        args, kwargs = t[3], dict(t[4])
        if f[0] == "attr":
            recv = self.share(f[1])
            meth = f[2]
            if meth == "copy" and not args:
                fresh = 2 if (f[1] in self.graph_typed or t in self.graph_typed) else 1
                return {r: (d, max(fr, fresh)) for r, (d, fr) in recv.items()}
            if meth in ("get", "pop", "setdefault"):
                out = {r: ((d + 1, 0) if fr == 0 else (d + 1, fr - 1)) for r, (d, fr) in recv.items()}
                for a in args[1:]:
                    for r, v in self.share(a).items():
                        out.setdefault(r, v)
                return out
            if meth in VIEW_METHODS:
                return recv
            if meth in ("format", "join", "split", "startswith", "count", "index", "find", "isdigit", "strip"):
                return {}
            # unknown method: result may expose the receiver
            return recv
        if f[0] == "builtin":
            if name in SEVERING:
                return {}
            if name in SHALLOW_1 and args:
                return {r: (d, max(fr, 1)) for r, (d, fr) in self.share(args[0]).items()}
            if name in ("next", "min", "max") and args:
                return {r: ((d + 1, 0) if fr == 0 else (d + 1, fr - 1)) for r, (d, fr) in self.share(args[0]).items()}
            if name in ("enumerate", "zip", "reversed", "iter", "filter", "map"):
                out = {}
                for a in args:
                    for r, v in self.share(a).items():
                        out.setdefault(r, v)
                return out
            return {}
        if f[0] == "ext":
            if name in ("copy.deepcopy",):
                return {}
            if name == "copy.copy" and args:
                return {r: (d, max(fr, 1)) for r, (d, fr) in self.share(args[0]).items()}
            if name in ("networkx.get_node_attributes", "networkx.get_edge_attributes") and args:
                # fresh dict: key -> attribute value (distance 2 of the graph)
                return {r: (d + 1, 1) if fr == 0 else (d + 1, max(fr - 1, 1)) for r, (d, fr) in self.share(args[0]).items()}
            if name in ("networkx.relabel_nodes", "networkx.contracted_nodes") and args:
                cp = kwargs.get("copy", ("const", True))
                if cp == ("const", False):
                    return self.share(args[0])
                return {r: (d, max(fr, 2)) for r, (d, fr) in self.share(args[0]).items()}
            if name == "random.choice" and args:
                return {r: ((d + 1, 0) if fr == 0 else (d + 1, fr - 1)) for r, (d, fr) in self.share(args[0]).items()}
            if name.startswith("itertools.") or name in ("numpy.array",):
                out = {}
                for a in args:
                    for r, v in self.share(a).items():
                        out.setdefault(r, v)
                return out
            return {}
        if f[0] in ("fn", "cls"):
            fq = f[1]
            ret = self.returns.get(fq)
            if not ret:
                return {}
            out = {}
            callee = self.repo.function(fq) if f[0] == "fn" else None
            if callee is None:
                return {}
            pos = callee.positional_params
            if callee.cls and not callee.is_staticmethod:
                pos = pos[1:] if f[0] != "fn" or True else pos
            amap = {}
            cpos = callee.positional_params
            # plain functions: positional mapping; bound methods are called as self.m(...) -> attr form, not here
            for i, a in enumerate(args):
                if i < len(cpos):
                    amap[cpos[i]] = a
            for kname, a in kwargs.items():
                amap[kname] = a
            for p, (d0, f0) in ret.items():
                if p in amap:
                    for r, (d, fr) in self.share(amap[p]).items():
                        out[r] = (d + d0, max(fr, f0)) if fr or f0 else (d + d0, 0)
            return out
        return {}


class Effects:
    """Whole-package effect summaries (fixpoint)."""

    def __init__(self, repo):
        self.repo = repo
        self.param_effects = {}   # fq -> {root term: set of (distance, origin text)}
        self.returns = {}         # fq -> {param name: (distance, fresh)}
        self.flows = {}           # fq -> list of flow records
        self.m2_sites = []        # (fi, kind 'node'|'edge', key term or None, graph term, ast node)
        self._sharing = {}
        self._compute()

    def sharing(self, fi):
        if fi.fq not in self._sharing:
            self._sharing[fi.fq] = Sharing(self.repo, fi, self.returns)
        s = self._sharing[fi.fq]
        s.returns = self.returns
        return s

    def _compute(self):
        funcs = list(self.repo.all_functions())
        for fi in funcs:
            self.param_effects[fi.fq] = {}
            self.returns[fi.fq] = {}
        for _ in range(6):
            changed = False
            for fi in funcs:
                eff, ret = self._function(fi)
                if eff != self.param_effects[fi.fq]:
                    self.param_effects[fi.fq] = eff
                    changed = True
                if ret != self.returns[fi.fq]:
                    self.returns[fi.fq] = ret
                    changed = True
            if not changed:
                break
        for fi in funcs:
            self._collect_m2_and_flows(fi)

    def _add(self, eff, sh, depth, origin):
        for r, (d, fr) in sh.items():
            if depth >= fr:
                eff.setdefault(r, set()).add((d + depth, origin))

    def _function(self, fi):
        fl = fi.flow
        cfg = fi.cfg
        S = self.sharing(fi)
        eff = {}
        for n in cfg.nodes:
            st = n.ast
            if n.kind == "stmt":
                targets = []
                if isinstance(st, ast.Assign):
                    targets = [(t, "store") for t in st.targets]
                elif isinstance(st, ast.AugAssign):
                    targets = [(st.target, "aug")]
                elif isinstance(st, ast.AnnAssign) and st.value is not None:
                    targets = [(st.target, "store")]
                elif isinstance(st, ast.Delete):
                    targets = [(t, "del") for t in st.targets]
                flat = []
                for t, kind in targets:
                    if isinstance(t, (ast.Tuple, ast.List)):
                        flat += [(e, kind) for e in t.elts]
                    else:
                        flat.append((t, kind))
                for t, kind in flat:
                    where = "%s %s" % (kind, ast.unparse(t))
                    if isinstance(t, ast.Subscript):
                        self._add(eff, S.share(fl.canon(t.value, n.id)), 0, "%s:%d %s" % (fi.module.relpath, st.lineno, where))
                    elif isinstance(t, ast.Attribute):
                        base = fl.canon(t.value, n.id)
                        if base != ("param", "self"):
                            self._add(eff, S.share(base), 0, "%s:%d %s" % (fi.module.relpath, st.lineno, where))
                    elif isinstance(t, ast.Name) and kind == "aug" and isinstance(st.op, (ast.Add, ast.BitOr, ast.BitAnd)):
                        # in-place operator on a possibly mutable object: only when the right operand is list/set-like
                        vt = fl.canon(t, n.id)
                        rt = fl.canon(st.value, n.id)
                        listy = rt[0] in ("list", "set", "dict") or (rt[0] == "comp") or \
                            (rt[0] == "call" and rt[2] in (("builtin", "list"), ("builtin", "set"), ("builtin", "dict")))
                        sh = S.share(vt) if listy else {}
                        if sh:
                            self._add(eff, sh, 0, "%s:%d %s" % (fi.module.relpath, st.lineno, where))
        for call, nid in fl.calls():
            ct = fl.canon(call, nid)
            origin = "%s:%d %s" % (fi.module.relpath, call.lineno, ast.unparse(call.func))
            m = method_call(ct)
            tgt = self.repo.resolve_call(fi, call)
            if tgt.kind == "method" and m and m[1] in METHOD_MUTATORS:
                self._add(eff, S.share(m[0]), 0, origin)
            elif tgt.kind == "ext":
                for idx, depths in EXT_MUTATORS.get(tgt.name, ()):
                    a = ct[3][idx] if len(ct[3]) > idx else None
                    if a is not None:
                        for dpt in depths:
                            self._add(eff, S.share(a), dpt, origin)
                if tgt.name in ("networkx.relabel_nodes", "networkx.contracted_nodes") and dict(ct[4]).get("copy") == ("const", False) and ct[3]:
                    self._add(eff, S.share(ct[3][0]), 0, origin)
            elif tgt.kind in ("repo", "class") and tgt.fi is not None:
                callee = tgt.fi
                ce = self.param_effects.get(callee.fq, {})
                cpos = callee.positional_params
                args = list(ct[3])
                amap = {}
                if callee.cls and not callee.is_staticmethod:
                    # self.m(...) / cls(...) : first parameter is bound
                    recv = m[0] if m else None
                    if tgt.kind == "repo" and recv is not None:
                        amap[cpos[0]] = recv
                    cpos_rest = cpos[1:]
                else:
                    cpos_rest = cpos
                for i, a in enumerate(args):
                    if i < len(cpos_rest):
                        amap[cpos_rest[i]] = a
                for kname, a in ct[4]:
                    amap[kname] = a
                for root, items in ce.items():
                    if root[0] == "param" and root[1] in amap:
                        for dpt, org in items:
                            self._add(eff, S.share(amap[root[1]]), dpt, origin + " -> " + org)
                    elif root[0] == "attr" and root[1] == ("param", "self") and cpos and cpos[0] in amap and amap[cpos[0]] == ("param", "self"):
                        for dpt, org in items:
                            eff.setdefault(root, set()).add((dpt, origin + " -> " + org))
        # return sharing
        ret = {}
        for n in cfg.nodes:
            if n.kind == "stmt" and isinstance(n.ast, ast.Return) and n.ast.value is not None:
                for r, (d, fr) in S.share(fl.canon(n.ast.value, n.id)).items():
                    if r[0] == "param":
                        cur = ret.get(r[1])
                        if cur is None or fr < cur[1]:
                            ret[r[1]] = (d, fr)
        return eff, ret

    def _collect_m2_and_flows(self, fi):
        from .rules.common import node_attr, edge_attr
        fl = fi.flow
        cfg = fi.cfg
        S = self.sharing(fi)
        flows = []
        # M2 sites: mutation whose receiver is an attribute value of a graph node / edge
        def m2(recv, node):
            na = node_attr(recv)
            if na:
                self.m2_sites.append((fi, "node", na[2], na[0], node))
                return
            ea = edge_attr(recv)
            if ea:
                self.m2_sites.append((fi, "edge", ea[2], ea[0], node))
        for call, nid in fl.calls():
            ct = fl.canon(call, nid)
            m = method_call(ct)
            if m and m[1] in METHOD_MUTATORS and self.repo.resolve_call(fi, call).kind == "method":
                m2(m[0], call)
        for n in cfg.nodes:
            st = n.ast
            if n.kind == "stmt" and isinstance(st, ast.AugAssign) and isinstance(st.target, ast.Subscript) and \
                    isinstance(st.op, (ast.Add, ast.BitOr, ast.BitAnd)):
                # G.nodes[n][k] += v : in place on the value for lists
                tt = fl.canon(st.target, n.id)
                m2(tt, st)
            elif n.kind == "stmt" and isinstance(st, (ast.Assign, ast.Delete)):
                tg = st.targets
                for t in tg:
                    if isinstance(t, ast.Subscript):
                        tt = fl.canon(t.value, n.id)
                        m2(tt, st)
        # flows: values stored into a graph (add_node / add_edge **attrs, G.nodes[n][k] = v, set_node_attributes)
        for call, nid in fl.calls():
            ct = fl.canon(call, nid)
            m = method_call(ct)
            if m and m[1] in ("add_node", "add_edge", "add_nodes_from", "add_edges_from"):
                kind = "node" if "node" in m[1] else "edge"
                dest = m[0]
                for kname, v in ct[4]:
                    sh = S.share(v)
                    for r, (d, fr) in sh.items():
                        # ** splat: values are one step inside the mapping
                        if kname == "**":
                            shared_values = fr <= 1
                        else:
                            shared_values = fr == 0
                        if shared_values and S.share(dest).get(r) is None:
                            flows.append({"kind": kind, "root": r, "dest": dest, "site": call, "nid": nid,
                                          "value": v, "keys": None if kname == "**" else kname, "splat_term": v if kname == "**" else None})
        self.flows[fi.fq] = flows

    # -- queries ------------------------------------------------------------------
    def effects_on(self, fi, root):
        return sorted(self.param_effects.get(fi.fq, {}).get(root, ()))
