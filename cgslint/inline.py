"""Inlining of helper functions that are not part of the confirmed function inventory.

The rules are anchored on the functions of today's tree (spec/known_functions.json).  The most common
behaviour-preserving refactoring, "extract function / extract method", moves a block of an anchored function
into a new helper; analysed as written, the anchored function then no longer contains the statements a rule
looks for.  Before a module is indexed, every call of a helper that is *not* in the inventory is therefore
replaced by the helper's body (parameters bound, locals renamed, early returns turned into if/else), so that
the anchored function is analysed with the helper's code in place - whatever that code does.  This is a
source-to-source transformation for analysis only; nothing is executed and nothing is written back.

Not inlined (the call stays, the rules see an opaque call): decorated functions other than @staticmethod,
generators, *args / **kwargs on either side, nested defs, recursion, `return` inside a loop / try / with, and an
if with a `return` on only some of the paths through one arm.
"""
import ast
import copy
import json
import os

from .report import VERIF

_KNOWN = None


def known_functions():
    global _KNOWN
    if _KNOWN is None:
        with open(os.path.join(VERIF, "spec", "known_functions.json")) as fh:
            _KNOWN = {k: set(v) for k, v in json.load(fh).items() if not k.startswith("_")}
    return _KNOWN


class _NotInlinable(Exception):
    pass


def _contains_return(stmts):
    for st in stmts:
        for sub in ast.walk(st):
            if isinstance(sub, ast.Return):
                return True
    return False


def _always_returns(stmts):
    if not stmts:
        return False
    last = stmts[-1]
    if isinstance(last, (ast.Return, ast.Raise)):
        return True
    if isinstance(last, ast.If):
        return bool(last.orelse) and _always_returns(last.body) and _always_returns(last.orelse)
    if isinstance(last, ast.Try) and not last.finalbody and not last.orelse and last.handlers:
        return _always_returns(last.body) and all(_always_returns(h.body) for h in last.handlers)
    return False


def _single_exit(stmts, ret):
    """Statement list without `return`: the value goes to the name `ret`.  Raises _NotInlinable."""
    out = []
    for i, st in enumerate(stmts):
        rest = stmts[i + 1:]
        if isinstance(st, ast.Return):
            val = st.value if st.value is not None else ast.Constant(value=None)
            out.append(ast.copy_location(ast.Assign(targets=[ast.Name(id=ret, ctx=ast.Store())], value=val, lineno=st.lineno), st))
            return out
        if isinstance(st, ast.If) and (_contains_return(st.body) or _contains_return(st.orelse)):
            b_ret, e_ret = _always_returns(st.body), _always_returns(st.orelse)
            # an arm that returns on some of its paths only would need the rest duplicated: not supported
            if _contains_return(st.body) and not b_ret:
                raise _NotInlinable("return on some paths of an if arm")
            if _contains_return(st.orelse) and not e_ret:
                raise _NotInlinable("return on some paths of an else arm")
            if b_ret and e_ret:
                new = ast.If(test=st.test, body=_single_exit(st.body, ret), orelse=_single_exit(st.orelse, ret))
                out.append(ast.copy_location(new, st))
                return out
            if b_ret:
                # guard clause: the rest is the else arm
                els = list(st.orelse) + list(rest)
                new = ast.If(test=st.test, body=_single_exit(st.body, ret), orelse=_single_exit(els, ret))
                out.append(ast.copy_location(new, st))
                return out
            # e_ret only
            bod = list(st.body) + list(rest)
            new = ast.If(test=st.test, body=_single_exit(bod, ret), orelse=_single_exit(st.orelse, ret))
            out.append(ast.copy_location(new, st))
            return out
        if isinstance(st, ast.Try) and _contains_return([st]) and not _contains_return(st.body) and not _contains_return(st.orelse) and \
                not st.finalbody and st.handlers and all(_always_returns(h.body) for h in st.handlers):
            # every handler leaves the function: what follows the try statement runs exactly when no handler ran, which is
            # the `else` clause (exceptions raised there are not caught by the handlers either)
            handlers = [ast.copy_location(ast.ExceptHandler(type=h.type, name=h.name, body=_single_exit(h.body, ret)), h) for h in st.handlers]
            new = ast.Try(body=st.body, handlers=handlers, orelse=_single_exit(list(st.orelse) + list(rest), ret), finalbody=[])
            out.append(ast.copy_location(new, st))
            return out
        if isinstance(st, ast.Try) and st.body and isinstance(st.body[-1], ast.Return) and not _contains_return(st.body[:-1]) and not st.orelse and \
                not st.finalbody and st.handlers and all(_always_returns(h.body) or not _contains_return(h.body) for h in st.handlers) and \
                (not rest or all(_always_returns(h.body) for h in st.handlers)):
            # `try: ...; return E` as the last thing the function does (what follows is reached from no path, or there is
            # nothing): binding the result cannot raise, so `ret = E` inside the try is the same
            body = list(st.body[:-1]) + _single_exit([st.body[-1]], ret)
            handlers = [ast.copy_location(ast.ExceptHandler(type=h.type, name=h.name, body=_single_exit(h.body, ret) if _contains_return(h.body) else h.body), h)
                        for h in st.handlers]
            out.append(ast.copy_location(ast.Try(body=body, handlers=handlers, orelse=[], finalbody=[]), st))
            return out
        if isinstance(st, (ast.For, ast.While, ast.Try, ast.With, ast.AsyncFor, ast.AsyncWith)) and _contains_return([st]):
            raise _NotInlinable("return inside a loop / try / with")
        if hasattr(ast, "Match") and isinstance(st, ast.Match) and _contains_return([st]):
            raise _NotInlinable("return inside match")
        out.append(st)
    return out


class _Subst(ast.NodeTransformer):
    """rename local names / substitute parameters by expressions"""

    def __init__(self, rename, subst):
        self.rename = rename
        self.subst = subst

    def visit_Name(self, n):
        if n.id in self.subst and isinstance(n.ctx, ast.Load):
            return copy.deepcopy(self.subst[n.id])
        if n.id in self.rename:
            return ast.copy_location(ast.Name(id=self.rename[n.id], ctx=n.ctx), n)
        return n

    def visit_ExceptHandler(self, n):
        self.generic_visit(n)
        if n.name and n.name in self.rename:
            n.name = self.rename[n.name]
        return n


def _stored_names(fn):
    out = set()
    for sub in ast.walk(fn):
        if isinstance(sub, ast.Name) and isinstance(sub.ctx, (ast.Store, ast.Del)):
            out.add(sub.id)
        elif isinstance(sub, ast.ExceptHandler) and sub.name:
            out.add(sub.name)
        elif isinstance(sub, (ast.Import, ast.ImportFrom)):
            for al in sub.names:
                out.add((al.asname or al.name).split(".")[0])
    return out


def _is_simple_arg(e):
    if isinstance(e, (ast.Name, ast.Constant)):
        return True
    if isinstance(e, ast.Attribute):
        return _is_simple_arg(e.value)
    if isinstance(e, ast.Subscript) and isinstance(e.ctx, ast.Load):
        return _is_simple_arg(e.value) and isinstance(e.slice, (ast.Name, ast.Constant))
    if isinstance(e, ast.UnaryOp) and isinstance(e.operand, ast.Constant):
        return True
    return False


def _own_level(stmts, kinds):
    """statements of the given kinds that belong to this loop level (not to a loop nested in it)"""
    out = []
    for st in stmts:
        if isinstance(st, kinds):
            out.append(st)
        if isinstance(st, (ast.For, ast.While, ast.AsyncFor)):
            out.extend(_own_level(st.orelse, kinds))
            continue
        if isinstance(st, (ast.FunctionDef, ast.AsyncFunctionDef, ast.ClassDef)):
            continue
        for fld in ("body", "orelse", "finalbody"):
            b = getattr(st, fld, None)
            if isinstance(b, list):
                out.extend(_own_level(b, kinds))
        for hnd in getattr(st, "handlers", []) or []:
            out.extend(_own_level(hnd.body, kinds))
        for case in getattr(st, "cases", []) or []:
            out.extend(_own_level(case.body, kinds))
    return out


def _yields_in_tail_position(body):
    """every `yield E` statement is the last thing done in an iteration of the loop around it: resuming the generator there
    is what `continue` does in that loop"""
    ok = [True]
    def block(stmts, tail, in_loop):
        for i, st in enumerate(stmts):
            last = tail and i == len(stmts) - 1
            if isinstance(st, ast.Expr) and isinstance(st.value, ast.Yield):
                if not (last and in_loop):
                    ok[0] = False
            elif isinstance(st, (ast.For, ast.While)):
                block(st.body, True, True)
                block(st.orelse, last, in_loop)
            elif isinstance(st, ast.If):
                block(st.body, last, in_loop)
                block(st.orelse, last, in_loop)
            elif any(isinstance(x, ast.Yield) for x in ast.walk(st)):
                ok[0] = False
    block(body, False, False)
    return ok[0]


class _Helper:
    def __init__(self, fn, cls, gen=False, search=False):
        self.fn = fn
        self.cls = cls
        self.name = fn.name
        self.gen = gen
        self.search = search
        deco = [ast.unparse(d) for d in fn.decorator_list]
        self.static = deco == ["staticmethod"]
        if deco and not self.static:
            raise _NotInlinable("decorated")
        a = fn.args
        if a.vararg or a.kwarg or a.posonlyargs:
            raise _NotInlinable("star / positional-only parameters")
        own_names = _stored_names(fn) | {x.arg for x in a.args + a.kwonlyargs}
        for sub in ast.walk(fn):
            if sub is not fn and isinstance(sub, (ast.FunctionDef, ast.AsyncFunctionDef, ast.ClassDef)):
                raise _NotInlinable("nested scope")
            if isinstance(sub, ast.Lambda):
                # a lambda reads the helper's names like any expression; its own parameters must not be one of them
                la = sub.args
                lnames = {x.arg for x in la.args + la.kwonlyargs + la.posonlyargs} | ({la.vararg.arg} if la.vararg else set()) | ({la.kwarg.arg} if la.kwarg else set())
                if lnames & own_names:
                    raise _NotInlinable("nested scope (lambda parameter shadows a local)")
            if isinstance(sub, (ast.YieldFrom, ast.Await, ast.Global, ast.Nonlocal)) or (isinstance(sub, ast.Yield) and not gen):
                raise _NotInlinable("generator / global")
            if gen and isinstance(sub, ast.Return):
                raise _NotInlinable("generator with a return statement")
            if isinstance(sub, ast.Call) and ((isinstance(sub.func, ast.Name) and sub.func.id == fn.name) or
                                              (isinstance(sub.func, ast.Attribute) and sub.func.attr == fn.name)):
                raise _NotInlinable("recursive")
        self.params = [x.arg for x in a.args] + [x.arg for x in a.kwonlyargs]
        self.n_pos = len(a.args)
        self.defaults = {}
        for p, d in zip([x.arg for x in a.args][len(a.args) - len(a.defaults):], a.defaults):
            self.defaults[p] = d
        for p, d in zip([x.arg for x in a.kwonlyargs], a.kw_defaults):
            if d is not None:
                self.defaults[p] = d
        body = list(fn.body)
        if body and isinstance(body[0], ast.Expr) and isinstance(body[0].value, ast.Constant) and isinstance(body[0].value.value, str):
            body = body[1:]
        self.body = body
        self.locals = _stored_names(fn) | set(self.params)
        # pure expression helper: a single `return <expr>`
        self.expr = body[0].value if len(body) == 1 and isinstance(body[0], ast.Return) and body[0].value is not None else None
        if gen:
            self.expr = None
            ys = [x for st in body for x in ast.walk(st) if isinstance(x, ast.Yield)]
            ystmts = [x for st in body for x in ast.walk(st) if isinstance(x, ast.Expr) and isinstance(x.value, ast.Yield)]
            if not ys or len(ys) != len(ystmts) or len(ys) > 2:
                raise _NotInlinable("generator whose yields are not plain statements (or more than two of them)")
            self.tail_yields = _yields_in_tail_position(body)
        elif search:
            # "first match or None": every return but the closing one hands out a display (never None) from inside the loops
            self.expr = None
            tail = body[-1] if body and isinstance(body[-1], ast.Return) else None
            if tail is not None and not (tail.value is None or (isinstance(tail.value, ast.Constant) and tail.value.value is None)):
                raise _NotInlinable("search helper whose last return is not None")
            inner = [x for st in body for x in ast.walk(st) if isinstance(x, ast.Return) and x is not tail]
            if not inner or not all(isinstance(x.value, (ast.Tuple, ast.List, ast.Dict, ast.Set)) or
                                    (isinstance(x.value, ast.Constant) and x.value.value is not None) for x in inner):
                raise _NotInlinable("search helper returning something that may be None from its loops")
            self.search_body = body[:-1] if tail is not None else body
        elif self.expr is None:
            _single_exit(copy.deepcopy(body), "__probe")     # raises if not inlinable


class Inliner:
    def __init__(self, tree, modname):
        self.tree = tree
        self.modname = modname
        self.known = known_functions().get(modname)
        self.counter = 0
        self.report = []
        self.helpers = {}      # (cls or None, name) -> _Helper
        self.search_helpers = {}  # (cls or None, name) -> _Helper(search=True): "first match or None" helpers, see search_pair
        self.gen_helpers = {}  # (cls or None, name) -> _Helper(gen=True): generator functions, dissolved into the loops over them
        self.nested = {}       # id(enclosing FunctionDef) -> {name: _Helper}: local functions that are only ever called

    def run(self):
        if self.known is None:
            return self.tree      # a module that is not in the inventory: analysed as written
        def all_functions():
            for st in self.tree.body:
                if isinstance(st, ast.FunctionDef):
                    yield st, None
                elif isinstance(st, ast.ClassDef):
                    for sub in st.body:
                        if isinstance(sub, ast.FunctionDef):
                            yield sub, st.name
        # local closures first: a helper that defines one can be inlined once the closure has been dissolved in it
        for node in ast.walk(self.tree):
            if isinstance(node, ast.FunctionDef):
                self._register_nested(node)
        if self.nested:
            for fn_, cls_ in all_functions():
                if id(fn_) in self.nested:
                    self._inline_in(fn_, cls_)
        for fn_, cls_ in all_functions():
            qual = (cls_ + "." if cls_ else "") + fn_.name
            if qual not in self.known:
                self._register(fn_, cls_)
        if not self.helpers and not self.nested and not self.gen_helpers and not self.search_helpers:
            return self.tree
        for _ in range(4):
            changed = False
            for st in self.tree.body:
                if isinstance(st, ast.FunctionDef):
                    changed |= self._inline_in(st, None)
                elif isinstance(st, ast.ClassDef):
                    for sub in st.body:
                        if isinstance(sub, ast.FunctionDef):
                            changed |= self._inline_in(sub, st.name)
            if not changed:
                break
        self._drop_unreferenced()
        ast.fix_missing_locations(self.tree)
        return self.tree

    def _drop_unreferenced(self):
        """a helper whose every call was inlined is not part of the analysed program any more"""
        refs = {}
        for sub in ast.walk(self.tree):
            if isinstance(sub, ast.Name) and isinstance(sub.ctx, ast.Load):
                refs[sub.id] = refs.get(sub.id, 0) + 1
            elif isinstance(sub, ast.Attribute):
                refs[sub.attr] = refs.get(sub.attr, 0) + 1
        def keep(st, cls):
            if isinstance(st, ast.FunctionDef) and ((cls, st.name) in self.helpers or (cls, st.name) in self.gen_helpers or
                                                    (cls, st.name) in self.search_helpers) and not refs.get(st.name):
                self.report.append("%s%s inlined at every call site" % (cls + "." if cls else "", st.name))
                return False
            return True
        self.tree.body = [st for st in self.tree.body if keep(st, None)]
        for st in self.tree.body:
            if isinstance(st, ast.ClassDef):
                st.body = [x for x in st.body if keep(x, st.name)] or [ast.Pass()]

    def _register_nested(self, outer):
        """local functions defined directly in the body of `outer` and used only by calling them by name"""
        for st in outer.body:
            if not isinstance(st, ast.FunctionDef):
                continue
            name = st.name
            uses = [n for n in ast.walk(outer) if isinstance(n, ast.Name) and n.id == name]
            called = {id(c.func) for c in ast.walk(outer) if isinstance(c, ast.Call) and isinstance(c.func, ast.Name) and c.func.id == name}
            inside = {id(n) for n in ast.walk(st)}
            if any(id(u) not in called or id(u) in inside for u in uses):
                continue        # passed around as a value, rebound, or recursive
            if sum(1 for x in ast.walk(outer) if isinstance(x, ast.FunctionDef) and x.name == name) != 1:
                continue
            try:
                h = _Helper(st, None)
            except _NotInlinable as err:
                self.report.append("local function %s.%s not inlined: %s" % (outer.name, name, err))
                continue
            # free names of the local function must not be rebound by the inlined body's own renaming: they are left alone
            self.nested.setdefault(id(outer), {})[name] = h

    def _register(self, fn, cls):
        if any(isinstance(x, ast.Yield) for x in ast.walk(fn)):
            try:
                self.gen_helpers[(cls, fn.name)] = _Helper(fn, cls, gen=True)
            except _NotInlinable as err:
                self.report.append("%s%s not inlined: %s" % (cls + "." if cls else "", fn.name, err))
            return
        try:
            self.helpers[(cls, fn.name)] = _Helper(fn, cls)
        except _NotInlinable as err:
            if "return inside a loop" in str(err):
                try:
                    self.search_helpers[(cls, fn.name)] = _Helper(fn, cls, search=True)
                    return
                except _NotInlinable:
                    pass
            self.report.append("%s%s not inlined: %s" % (cls + "." if cls else "", fn.name, err))

    # -- call resolution ---------------------------------------------------
    def _helper_of(self, call, cls, self_name, outer=None):
        f = call.func
        if isinstance(f, ast.Name) and outer is not None and f.id in self.nested.get(id(outer), {}):
            return self.nested[id(outer)][f.id], None
        if isinstance(f, ast.Name) and (None, f.id) in self.helpers:
            return self.helpers[(None, f.id)], None
        if isinstance(f, ast.Attribute) and isinstance(f.value, ast.Name) and cls is not None:
            if f.value.id == self_name and (cls, f.attr) in self.helpers:
                return self.helpers[(cls, f.attr)], f.value
            if f.value.id in (cls, "cls") and (cls, f.attr) in self.helpers and self.helpers[(cls, f.attr)].static:
                return self.helpers[(cls, f.attr)], None
        return None, None

    def _bind(self, h, call, receiver, alias=None):
        """-> (prelude statements, substitution map, rename map) or raises.  alias: parameters that are handed a plain
        name and whose final value is assigned back to that same name by the calling statement (in/out parameters): they
        are the caller's variable."""
        if any(isinstance(a, ast.Starred) for a in call.args) or any(k.arg is None for k in call.keywords):
            raise _NotInlinable("star arguments at the call")
        self.counter += 1
        tag = "_i%d" % self.counter
        params = list(h.params)
        given = {}
        if h.cls is not None and not h.static:
            if receiver is None:
                raise _NotInlinable("method called without receiver")
            given[params[0]] = receiver
            pos = params[1:h.n_pos]
        else:
            pos = params[:h.n_pos]
        if len(call.args) > len(pos):
            raise _NotInlinable("too many positional arguments")
        for p, a in zip(pos, call.args):
            given[p] = a
        for k in call.keywords:
            if k.arg not in params or k.arg in given:
                raise _NotInlinable("keyword %s" % k.arg)
            given[k.arg] = k.value
        for p in params:
            if p not in given:
                if p not in h.defaults:
                    raise _NotInlinable("missing argument %s" % p)
                given[p] = h.defaults[p]
        assigned = set()
        for sub in ast.walk(h.fn):
            if isinstance(sub, ast.Name) and isinstance(sub.ctx, (ast.Store, ast.Del)):
                assigned.add(sub.id)
        prelude, subst = [], {}
        rename = {n: n + tag for n in h.locals}
        alias = dict(alias or {})
        for p, target in list(alias.items()):
            a = given.get(p)
            others = [given[q] for q in params if q != p]
            if not (isinstance(a, ast.Name) and a.id == target) or any(isinstance(x, ast.Name) and x.id == target for o in others for x in ast.walk(o)):
                del alias[p]
        for p in params:
            a = given[p]
            if p in alias:
                rename[p] = alias[p]
                continue
            if p not in assigned and _is_simple_arg(a):
                subst[p] = a
                rename.pop(p, None)
            else:
                prelude.append(ast.Assign(targets=[ast.Name(id=rename[p], ctx=ast.Store())], value=copy.deepcopy(a), lineno=call.lineno))
        return prelude, subst, rename, tag

    def _expand_stmt_helper(self, h, call, receiver, alias=None):
        """-> (statements to put in front, expression that replaces the call)"""
        prelude, subst, rename, tag = self._bind(h, call, receiver, alias)
        sub = _Subst(rename, subst)
        if h.expr is not None:
            e = sub.visit(copy.deepcopy(h.expr))
            return prelude, e
        ret = "ret" + tag
        falls_off = not _always_returns(h.body)
        body = _single_exit(copy.deepcopy(h.body), ret)
        body = [sub.visit(st) for st in body]
        if falls_off and _contains_return(h.body):
            # some path leaves the helper without `return`: the value is None there
            body.insert(0, ast.Assign(targets=[ast.Name(id=ret, ctx=ast.Store())], value=ast.Constant(value=None), lineno=call.lineno))
        # `ret = <expr>` as the very last top-level statement and nowhere else: use the expression directly
        n_ret = sum(1 for st in body for x in ast.walk(st) if isinstance(x, ast.Name) and x.id == ret and isinstance(x.ctx, ast.Store))
        if n_ret == 1 and body and isinstance(body[-1], ast.Assign) and isinstance(body[-1].targets[0], ast.Name) and body[-1].targets[0].id == ret:
            return prelude + body[:-1], body[-1].value
        if n_ret == 0:
            return prelude + body, ast.Constant(value=None)
        return prelude + body, ast.Name(id=ret, ctx=ast.Load())

    # -- rewriting one function --------------------------------------------------
    @staticmethod
    def _expand_star_locals(fn):
        """f(*t) with t a local that is only ever bound to None or to tuple displays of one length n: f(t[0], ..., t[n-1])"""
        lengths = {}
        for n in _walk_own(fn):
            if isinstance(n, ast.Name) and isinstance(n.ctx, (ast.Store, ast.Del)):
                lengths.setdefault(n.id, set())
        for n in _walk_own(fn):
            if isinstance(n, ast.Assign) and len(n.targets) == 1 and isinstance(n.targets[0], ast.Name):
                v = n.value
                if isinstance(v, ast.Constant) and v.value is None:
                    lengths[n.targets[0].id].add(None)
                elif isinstance(v, ast.Tuple) and not any(isinstance(e, ast.Starred) for e in v.elts):
                    lengths[n.targets[0].id].add(len(v.elts))
                else:
                    lengths[n.targets[0].id].add("other")
                n.targets[0]._counted = True
        for n in _walk_own(fn):
            if isinstance(n, ast.Name) and isinstance(n.ctx, (ast.Store, ast.Del)) and not getattr(n, "_counted", False):
                lengths[n.id].add("other")
        done = 0
        for c in _walk_own(fn):
            if not isinstance(c, ast.Call):
                continue
            new_args = []
            for a in c.args:
                if isinstance(a, ast.Starred) and isinstance(a.value, ast.Name):
                    ls = lengths.get(a.value.id, {"other"}) - {None}
                    if len(ls) == 1 and isinstance(next(iter(ls)), int):
                        k = next(iter(ls))
                        new_args.extend(ast.copy_location(ast.Subscript(value=ast.Name(id=a.value.id, ctx=ast.Load()), slice=ast.Constant(value=i), ctx=ast.Load()), a)
                                        for i in range(k))
                        done += 1
                        continue
                new_args.append(a)
            c.args = new_args
        if done:
            ast.fix_missing_locations(fn)
        return done

    def _inline_in(self, fn, cls):
        self_name = fn.args.args[0].arg if cls is not None and fn.args.args else None
        changed = [False]
        if self._expand_star_locals(fn):
            changed[0] = True
        me = (cls, fn.name)

        def search_pair(a, b):
            """x = helper(args); if x is not None: BODY (BODY always leaves the function)   with helper a "first match or None"
            search   ->   x = None; the helper's loops with `x = E; BODY` in place of each `return E`."""
            if not (isinstance(a, ast.Assign) and len(a.targets) == 1 and isinstance(a.targets[0], ast.Name) and isinstance(a.value, ast.Call) and
                    isinstance(b, ast.If) and not b.orelse and isinstance(b.test, ast.Compare) and len(b.test.ops) == 1 and
                    isinstance(b.test.ops[0], ast.IsNot) and isinstance(b.test.left, ast.Name) and b.test.left.id == a.targets[0].id and
                    isinstance(b.test.comparators[0], ast.Constant) and b.test.comparators[0].value is None and _always_returns(b.body)):
                return None
            f = a.value.func
            h, recv = None, None
            if isinstance(f, ast.Name) and (None, f.id) in self.search_helpers:
                h = self.search_helpers[(None, f.id)]
            elif isinstance(f, ast.Attribute) and isinstance(f.value, ast.Name) and cls is not None and (cls, f.attr) in self.search_helpers:
                g = self.search_helpers[(cls, f.attr)]
                if f.value.id == self_name and not g.static:
                    h, recv = g, f.value
                elif g.static:
                    h = g
            if h is None or (h.cls, h.name) == me:
                return None
            try:
                prelude, subst, rename, tag = self._bind(h, a.value, recv)
            except _NotInlinable as err:
                self.report.append("search helper %s at line %d not inlined: %s" % (h.name, a.lineno, err))
                return None
            x = a.targets[0].id
            sub = _Subst(rename, subst)
            body = [sub.visit(copy.deepcopy(st_)) for st_ in h.search_body]

            class _R(ast.NodeTransformer):
                def visit_Return(self, n):
                    first = ast.copy_location(ast.Assign(targets=[ast.Name(id=x, ctx=ast.Store())], value=n.value), n)
                    return [first] + [copy.deepcopy(y) for y in b.body]
            out = [ast.copy_location(ast.Assign(targets=[ast.Name(id=x, ctx=ast.Store())], value=ast.Constant(value=None)), a)]
            for st_ in body:
                r_ = _R().visit(st_)
                out.extend(r_ if isinstance(r_, list) else [r_])
            self.report.append("search helper %s at line %d read as the loops it was extracted from" % (h.name, a.lineno))
            return [ast.fix_missing_locations(y) for y in prelude + out]

        def rewrite_block(stmts):
            out = []
            i = 0
            stmts = list(stmts)
            while i < len(stmts):
                if self.search_helpers and i + 1 < len(stmts):
                    sp = search_pair(stmts[i], stmts[i + 1])
                    if sp is not None:
                        changed[0] = True
                        stmts[i:i + 2] = sp
                        continue
                out.extend(rewrite_stmt(stmts[i]))
                i += 1
            return out

        def calls_in(expr_nodes):
            found = []
            for e in expr_nodes:
                if e is None:
                    continue
                for sub in ast.walk(e):
                    if isinstance(sub, ast.Call):
                        h, recv = self._helper_of(sub, cls, self_name, fn)
                        if h is not None and (h.cls, h.name) != me:
                            found.append((sub, h, recv))
            return found

        def comprehension_as_loop(st):
            """x = [E for T in I if C] / {K: V for ...} / {E for ...} with one generator  ->  x = []; for T in I: if C: x.append(E)
            (done only where the element expression calls a helper that has statements of its own)"""
            if not (isinstance(st, ast.Assign) and len(st.targets) == 1 and isinstance(st.targets[0], ast.Name) and
                    isinstance(st.value, (ast.ListComp, ast.SetComp, ast.DictComp)) and len(st.value.generators) == 1 and not st.value.generators[0].is_async):
                return None
            comp, g, name = st.value, st.value.generators[0], st.targets[0].id
            elems = [comp.key, comp.value] if isinstance(comp, ast.DictComp) else [comp.elt]
            if not any(h.expr is None for _, h, _ in calls_in(elems + list(g.ifs))):
                return None
            if any(isinstance(n, ast.Name) and n.id == name for e in elems + list(g.ifs) + [g.iter] for n in ast.walk(e)):
                return None
            load = lambda: ast.Name(id=name, ctx=ast.Load())
            if isinstance(comp, ast.DictComp):
                init = ast.Dict(keys=[], values=[])
                add = ast.Assign(targets=[ast.Subscript(value=load(), slice=comp.key, ctx=ast.Store())], value=comp.value, lineno=st.lineno)
            elif isinstance(comp, ast.ListComp):
                init = ast.List(elts=[], ctx=ast.Load())
                add = ast.Expr(value=ast.Call(func=ast.Attribute(value=load(), attr="append", ctx=ast.Load()), args=[comp.elt], keywords=[]))
            else:
                init = ast.Call(func=ast.Name(id="set", ctx=ast.Load()), args=[], keywords=[])
                add = ast.Expr(value=ast.Call(func=ast.Attribute(value=load(), attr="add", ctx=ast.Load()), args=[comp.elt], keywords=[]))
            body = [ast.copy_location(add, st)]
            for cond in reversed(g.ifs):
                body = [ast.copy_location(ast.If(test=cond, body=body, orelse=[]), st)]
            loop = ast.For(target=g.target, iter=g.iter, body=body, orelse=[], lineno=st.lineno)
            out = [ast.copy_location(ast.Assign(targets=[ast.Name(id=name, ctx=ast.Store())], value=init, lineno=st.lineno), st), ast.copy_location(loop, st)]
            for o in out:
                ast.fix_missing_locations(o)
            return out

        def in_nested_scope(root, target):
            """is `target` inside a comprehension / lambda below root?"""
            stack = [(root, False)]
            while stack:
                n, nested = stack.pop()
                if n is target:
                    return nested
                for c in ast.iter_child_nodes(n):
                    stack.append((c, nested or isinstance(n, (ast.ListComp, ast.SetComp, ast.DictComp, ast.GeneratorExp, ast.Lambda))))
            return False

        def replace(root, old, new):
            class R(ast.NodeTransformer):
                def visit_Call(self, n):
                    if n is old:
                        return new
                    self.generic_visit(n)
                    return n
            return R().visit(root)

        def in_out_params(st, call, h):
            """`a, b = helper(a, x, b)` with the helper ending in `return p, q` for its parameters p, q: {p: 'a', q: 'b'}"""
            if not (isinstance(st, ast.Assign) and st.value is call and len(st.targets) == 1 and h.expr is None and h.body):
                return None
            last = h.body[-1]
            n_returns = sum(1 for x in h.body for y in ast.walk(x) if isinstance(y, ast.Return))
            if not isinstance(last, ast.Return) or last.value is None or n_returns != 1:
                return None
            tgt, val = st.targets[0], last.value
            pairs = []
            if isinstance(tgt, ast.Name) and isinstance(val, ast.Name):
                pairs = [(tgt, val)]
            elif isinstance(tgt, ast.Tuple) and isinstance(val, ast.Tuple) and len(tgt.elts) == len(val.elts):
                pairs = list(zip(tgt.elts, val.elts))
            out = {}
            for t, v in pairs:
                if isinstance(t, ast.Name) and isinstance(v, ast.Name) and v.id in h.params and v.id not in out:
                    out[v.id] = t.id
            return out or None

        def identity_assign(st):
            """`a, b = a, b` left behind by in/out parameters"""
            if isinstance(st, ast.Assign) and len(st.targets) == 1:
                t, v = st.targets[0], st.value
                if isinstance(t, ast.Name) and isinstance(v, ast.Name) and t.id == v.id:
                    return True
                if isinstance(t, ast.Tuple) and isinstance(v, ast.Tuple) and len(t.elts) == len(v.elts) and t.elts and \
                        all(isinstance(a, ast.Name) and isinstance(b, ast.Name) and a.id == b.id for a, b in zip(t.elts, v.elts)):
                    return True
            return False

        def simple_arms(st):
            """both arms of the if consist of jumps and constant assignments only (cheap to duplicate, no call sites doubled)"""
            def simple(x):
                if isinstance(x, (ast.Continue, ast.Break, ast.Pass)):
                    return True
                if isinstance(x, ast.Return):
                    return x.value is None or isinstance(x.value, (ast.Constant, ast.Name))
                if isinstance(x, ast.Assign):
                    return isinstance(x.value, ast.Constant) and all(isinstance(t, ast.Name) for t in x.targets)
                return False
            return len(st.body) + len(st.orelse) <= 3 and all(simple(x) for x in st.body + st.orelse)

        def map_loop(st):
            """for T in map(helper, X): B   ->   for m in X: T = helper(m); B"""
            if not (isinstance(st, ast.For) and isinstance(st.iter, ast.Call) and isinstance(st.iter.func, ast.Name) and st.iter.func.id == "map" and
                    len(st.iter.args) == 2 and not st.iter.keywords and isinstance(st.iter.args[0], (ast.Name, ast.Attribute))):
                return None
            fake = ast.Call(func=st.iter.args[0], args=[ast.Name(id="_", ctx=ast.Load())], keywords=[])
            h, recv = self._helper_of(fake, cls, self_name, fn)
            if h is None:
                return None
            self.counter += 1
            var = "mapped_i%d" % self.counter
            call = ast.Call(func=st.iter.args[0], args=[ast.Name(id=var, ctx=ast.Load())], keywords=[])
            first = ast.Assign(targets=[st.target], value=call, lineno=st.lineno)
            new = ast.For(target=ast.Name(id=var, ctx=ast.Store()), iter=st.iter.args[1], body=[ast.copy_location(first, st)] + list(st.body),
                          orelse=st.orelse, lineno=st.lineno)
            return ast.fix_missing_locations(ast.copy_location(new, st))

        def gen_loop(st):
            """for T in helper(args): B   with helper a generator function   ->   the helper's body with `T = E; B` in place of every
            `yield E`.  Exactly the interleaving of the generator protocol, as long as B does not leave the loop with `break`
            (and uses `continue` only where resuming the generator is `continue` in the helper's own loop)."""
            if not (isinstance(st, ast.For) and isinstance(st.iter, ast.Call) and not st.orelse):
                return None
            f = st.iter.func
            h, recv = None, None
            if isinstance(f, ast.Name) and (None, f.id) in self.gen_helpers:
                h = self.gen_helpers[(None, f.id)]
            elif isinstance(f, ast.Attribute) and isinstance(f.value, ast.Name) and cls is not None and (cls, f.attr) in self.gen_helpers:
                g = self.gen_helpers[(cls, f.attr)]
                if f.value.id == self_name and not g.static:
                    h, recv = g, f.value
                elif f.value.id in (cls, "cls", self_name) and g.static:
                    h = g
            if h is None or (h.cls, h.name) == me:
                return None
            try:
                if _own_level(st.body, (ast.Break,)):
                    raise _NotInlinable("the loop over the generator is left with break")
                if _own_level(st.body, (ast.Continue,)) and not h.tail_yields:
                    raise _NotInlinable("continue in the loop over a generator that does more after its yield")
                if any(isinstance(x, (ast.Yield, ast.YieldFrom)) for b_ in st.body for x in ast.walk(b_)):
                    raise _NotInlinable("the consumer is a generator itself")
                prelude, subst, rename, tag = self._bind(h, st.iter, recv)
                stored = {x.id for b_ in st.body for x in ast.walk(b_) if isinstance(x, ast.Name) and isinstance(x.ctx, (ast.Store, ast.Del))}
                stored |= {x.id for x in ast.walk(st.target) if isinstance(x, ast.Name)}
                written = {ast.unparse(x) for b_ in st.body for x in ast.walk(b_) if isinstance(x, (ast.Attribute, ast.Subscript)) and isinstance(x.ctx, (ast.Store, ast.Del))}
                for p_, a_ in subst.items():
                    if any(isinstance(x, ast.Name) and x.id in stored for x in ast.walk(a_)) or \
                            any(ast.unparse(x) in written for x in ast.walk(a_) if isinstance(x, (ast.Attribute, ast.Subscript))):
                        raise _NotInlinable("an argument of the generator is rebound by the loop body")
            except _NotInlinable as err:
                self.report.append("loop over generator %s at line %d not dissolved: %s" % (h.name, st.lineno, err))
                return None
            sub = _Subst(rename, subst)
            body = [sub.visit(copy.deepcopy(x)) for x in h.body]

            class _Y(ast.NodeTransformer):
                def visit_Expr(self, n):
                    if isinstance(n.value, ast.Yield):
                        v = n.value.value if n.value.value is not None else ast.Constant(value=None)
                        first = ast.copy_location(ast.Assign(targets=[copy.deepcopy(st.target)], value=v), n)
                        return [first] + [copy.deepcopy(x) for x in st.body]
                    return n
            out = []
            for x in body:
                r_ = _Y().visit(x)
                out.extend(r_ if isinstance(r_, list) else [r_])
            self.report.append("loop over generator %s at line %d read as the generator's own loops" % (h.name, st.lineno))
            return [ast.fix_missing_locations(x) for x in prelude + out]

        def rewrite_stmt(st):
            gl = gen_loop(st)
            if gl is not None:
                changed[0] = True
                return rewrite_block(gl)
            # if (x := E): ...   ->   x = E; if x: ...      (only where E needs rewriting itself)
            if isinstance(st, ast.If) and isinstance(st.test, ast.NamedExpr) and isinstance(st.test.target, ast.Name) and \
                    (calls_in([st.test.value]) or isinstance(st.test.value, (ast.ListComp, ast.SetComp, ast.DictComp))):
                first = ast.copy_location(ast.Assign(targets=[ast.Name(id=st.test.target.id, ctx=ast.Store())], value=st.test.value), st)
                st.test = ast.copy_location(ast.Name(id=st.test.target.id, ctx=ast.Load()), st.test)
                ast.fix_missing_locations(first)
                changed[0] = True
                return rewrite_stmt(first) + rewrite_stmt(st)
            ml = map_loop(st)
            if ml is not None:
                changed[0] = True
                st = ml
            loop_form = comprehension_as_loop(st)
            if loop_form is not None:
                changed[0] = True
                return rewrite_block(loop_form)
            if isinstance(st, ast.FunctionDef):
                return [st]         # a local function: its own body is not rewritten here
            # nested blocks first
            for fld in ("body", "orelse", "finalbody"):
                b = getattr(st, fld, None)
                if isinstance(b, list) and b and isinstance(b[0], ast.stmt):
                    setattr(st, fld, rewrite_block(b))
            if isinstance(st, ast.Try):
                for hnd in st.handlers:
                    hnd.body = rewrite_block(hnd.body)
            # expression parts evaluated once, before the statement's own effect
            if isinstance(st, (ast.Expr, ast.Assign, ast.AugAssign, ast.Return, ast.AnnAssign)):
                parts = [st.value]
                hoistable = True
            elif isinstance(st, ast.If):
                parts, hoistable = [st.test], True
            elif isinstance(st, ast.For):
                parts, hoistable = [st.iter], True
            elif isinstance(st, ast.While):
                parts, hoistable = [st.test], False
            elif isinstance(st, (ast.Assert, ast.Raise, ast.Delete, ast.With)):
                parts, hoistable = [], False
            else:
                parts, hoistable = [], False
            pre = []
            for _round in range(6):
                found = calls_in(parts)
                if not found:
                    break
                call, h, recv = found[0]
                nested = any(in_nested_scope(p, call) for p in parts if p is not None)
                try:
                    if h.expr is None and (nested or not hoistable):
                        raise _NotInlinable("statement helper called inside a comprehension / loop test")
                    if h.expr is None and isinstance(st, (ast.If, ast.While)):
                        # a predicate with a body of its own stays a function: rules that judge predicates interpret it as one.
                        # A "predicate" that can raise is a validation step: its raise sites belong to the calling function.
                        raises = any(isinstance(x, ast.Raise) for x in ast.walk(h.fn))
                        # ... and one that is a few assignments in front of a single `return <expr>` has no control flow of its
                        # own: in front of an `if` it reads as the statements it was extracted from
                        straight = isinstance(st, ast.If) and len(h.body) >= 2 and isinstance(h.body[-1], ast.Return) and h.body[-1].value is not None and \
                            all(isinstance(x, ast.Assign) and len(x.targets) == 1 and isinstance(x.targets[0], ast.Name) for x in h.body[:-1])
                        # ... or a loop that collects values in front of a single `return <expr>` (no other exit, nothing raised): the
                        # collecting statements read as written in front of the `if`
                        collects = isinstance(st, ast.If) and st.test is call and len(h.body) >= 2 and isinstance(h.body[-1], ast.Return) and \
                            h.body[-1].value is not None and not raises and any(isinstance(x, ast.For) for x in h.body[:-1]) and \
                            all(isinstance(x, (ast.Assign, ast.AugAssign, ast.For, ast.Expr)) for x in h.body[:-1]) and \
                            not any(isinstance(y, (ast.Return, ast.Yield, ast.YieldFrom, ast.Break, ast.While, ast.Try, ast.With)) for x in h.body[:-1] for y in ast.walk(x))
                        straight = straight or collects
                        if not (raises and isinstance(st, ast.If) and st.test is call) and not straight:
                            raise _NotInlinable("multi-statement predicate called in a condition")
                    prelude, e = self._expand_stmt_helper(h, call, recv, in_out_params(st, call, h))
                    if (nested or not hoistable) and prelude:
                        raise _NotInlinable("argument binding needed inside a comprehension / loop test")
                except _NotInlinable as err:
                    self.report.append("call of %s at line %d not inlined: %s" % (h.name, call.lineno, err))
                    # make sure this call is not looked at again
                    break
                ast.copy_location(e, call)
                if isinstance(st, ast.Assign) and st.value is call and isinstance(e, ast.Name) and e.id.startswith("ret_i") and \
                        all(isinstance(x, (ast.Name, ast.Attribute, ast.Tuple, ast.List)) or
                            (isinstance(x, ast.Subscript) and _attr_chain(x.value) and isinstance(x.slice, (ast.Name, ast.Constant))) for t in st.targets for x in [t]) and \
                        not any(isinstance(n, ast.Name) and n.id == e.id and isinstance(n.ctx, ast.Load) for p_ in prelude for n in ast.walk(p_)):
                    # x = helper(...): every `return v` of the helper assigns x directly (no intermediate name with several definitions)
                    retname = e.id

                    class _ToTargets(ast.NodeTransformer):
                        def visit_Assign(self, n):
                            if len(n.targets) == 1 and isinstance(n.targets[0], ast.Name) and n.targets[0].id == retname:
                                tg = st.targets[0] if len(st.targets) == 1 else None
                                if isinstance(tg, ast.Tuple) and isinstance(n.value, ast.Tuple) and len(tg.elts) == len(n.value.elts) and \
                                        not any(isinstance(e_, ast.Starred) for e_ in tg.elts + n.value.elts):
                                    written = {ast.unparse(t_) for t_ in tg.elts}
                                    read = {ast.unparse(x) for v_ in n.value.elts for x in ast.walk(v_) if isinstance(x, (ast.Name, ast.Attribute, ast.Subscript))}
                                    if not (written & read):
                                        # a, b = (x, y) with independent sides: one assignment per component
                                        return [ast.copy_location(ast.Assign(targets=[copy.deepcopy(t_)], value=v_), n) for t_, v_ in zip(tg.elts, n.value.elts)]
                                return ast.copy_location(ast.Assign(targets=copy.deepcopy(st.targets), value=n.value), n)
                            return self.generic_visit(n)
                    changed[0] = True
                    out_ = []
                    for p_ in prelude:
                        r_ = _ToTargets().visit(p_)
                        out_.extend(r_ if isinstance(r_, list) else [r_])
                    return pre + [ast.fix_missing_locations(x) for x in out_]
                if isinstance(st, ast.If) and st.test is call and isinstance(e, ast.Name) and e.id.startswith("ret_i") and h.expr is None and \
                        _always_returns(h.body) and simple_arms(st):
                    # `if helper(...): A else: B` with small arms: every `return v` of the helper continues with `if v: A else: B`
                    # (A or B directly for a constant v), which is the control flow before the helper was extracted
                    retname = e.id

                    class _Thread(ast.NodeTransformer):
                        def visit_Assign(self, n):
                            if len(n.targets) == 1 and isinstance(n.targets[0], ast.Name) and n.targets[0].id == retname:
                                if isinstance(n.value, ast.Constant):
                                    arm = st.body if n.value.value else st.orelse
                                    return [copy.deepcopy(x) for x in arm] or [ast.copy_location(ast.Pass(), n)]
                                return ast.copy_location(ast.If(test=n.value, body=[copy.deepcopy(x) for x in st.body],
                                                                orelse=[copy.deepcopy(x) for x in st.orelse]), n)
                            return self.generic_visit(n)
                    out_ = []
                    for p_ in prelude:
                        r_ = _Thread().visit(p_)
                        out_.extend(r_ if isinstance(r_, list) else [r_])
                    changed[0] = True
                    return pre + [ast.fix_missing_locations(x) for x in out_]
                if isinstance(st, ast.Expr) and st.value is call:
                    # a bare call statement: the body replaces it
                    changed[0] = True
                    # the value of a bare call statement is not used; keep a pure-expression helper's expression for its calls
                    tail = [ast.copy_location(ast.Expr(value=e), st)] if h.expr is not None else []
                    new = pre + prelude + tail
                    return new
                for fld in ("value", "test", "iter"):
                    if getattr(st, fld, None) is not None and any(x is call for x in ast.walk(getattr(st, fld))):
                        setattr(st, fld, replace(getattr(st, fld), call, e) if getattr(st, fld) is not call else e)
                parts = [getattr(st, f) for f in ("value", "test", "iter") if getattr(st, f, None) is not None]
                pre.extend(prelude)
                changed[0] = True
            if pre and identity_assign(st):
                return pre
            return pre + [st]

        fn.body = rewrite_block(fn.body)
        # a helper whose own body was just rewritten (a helper calling a helper) is inlined with the rewritten body
        for h in list(self.helpers.values()) + list(self.gen_helpers.values()) + list(self.search_helpers.values()) + \
                [x for d in self.nested.values() for x in d.values()]:
            if h.fn is fn:
                body = list(fn.body)
                if body and isinstance(body[0], ast.Expr) and isinstance(body[0].value, ast.Constant) and isinstance(body[0].value.value, str):
                    body = body[1:]
                h.body = body
                h.locals = _stored_names(fn) | set(h.params)
                h.expr = body[0].value if len(body) == 1 and isinstance(body[0], ast.Return) and body[0].value is not None and not h.gen and not h.search else None
                if h.search:
                    h.search_body = body[:-1] if body and isinstance(body[-1], ast.Return) else body
        local = self.nested.get(id(fn), {})
        if local:
            still = {n.id for n in ast.walk(fn) if isinstance(n, ast.Name) and isinstance(n.ctx, ast.Load)}
            kept = []
            for st in fn.body:
                if isinstance(st, ast.FunctionDef) and st.name in local and st.name not in still:
                    self.report.append("local function %s.%s inlined at every call site" % (fn.name, st.name))
                    del local[st.name]
                    continue
                kept.append(st)
            fn.body = kept or [ast.Pass()]
        return changed[0]


class _JoinToLoop(ast.NodeTransformer):
    """x = "".join([ELT for VAR in ITER])   ->   x = ""; for VAR in ITER: x += ELT
    (and the same for `return "".join(...)` through a fresh name): the accumulating form is what the emission rules read."""

    def __init__(self):
        self.n = 0

    @staticmethod
    def _match(v):
        if isinstance(v, ast.Call) and isinstance(v.func, ast.Attribute) and v.func.attr == "join" and isinstance(v.func.value, ast.Constant) and \
                v.func.value.value == "" and len(v.args) == 1 and not v.keywords and isinstance(v.args[0], (ast.ListComp, ast.GeneratorExp)) and \
                len(v.args[0].generators) == 1 and not v.args[0].generators[0].ifs and not v.args[0].generators[0].is_async:
            return v.args[0]
        return None

    def _loop(self, name, comp, at):
        g = comp.generators[0]
        init = ast.Assign(targets=[ast.Name(id=name, ctx=ast.Store())], value=ast.Constant(value=""), lineno=at.lineno)
        body = ast.AugAssign(target=ast.Name(id=name, ctx=ast.Store()), op=ast.Add(), value=comp.elt)
        loop = ast.For(target=g.target, iter=g.iter, body=[ast.copy_location(body, at)], orelse=[], lineno=at.lineno)
        return [ast.copy_location(init, at), ast.copy_location(loop, at)]

    def visit_FunctionDef(self, fn):
        self.generic_visit(fn)
        return fn

    def _rewrite_block(self, stmts):
        out = []
        for st in stmts:
            for fld in ("body", "orelse", "finalbody"):
                b = getattr(st, fld, None)
                if isinstance(b, list) and b and isinstance(b[0], ast.stmt):
                    setattr(st, fld, self._rewrite_block(b))
            if isinstance(st, ast.Try):
                for h in st.handlers:
                    h.body = self._rewrite_block(h.body)
            if isinstance(st, ast.Return) and st.value is not None and self._match(st.value) is not None:
                self.n += 1
                name = "joined_j%d" % self.n
                out += self._loop(name, self._match(st.value), st)
                out.append(ast.copy_location(ast.Return(value=ast.Name(id=name, ctx=ast.Load())), st))
            elif isinstance(st, ast.Assign) and len(st.targets) == 1 and isinstance(st.targets[0], ast.Name) and self._match(st.value) is not None:
                self.n += 1
                out += self._loop(st.targets[0].id, self._match(st.value), st)
            else:
                out.append(st)
        return out

    def run(self, tree):
        for node in ast.walk(tree):
            if isinstance(node, ast.FunctionDef):
                node.body = self._rewrite_block(node.body)
        return tree


def _list_acc_to_str(tree):
    """parts = []; ... parts.append(X) ...; "".join(parts)   ->   parts = ""; ... parts += X ...; parts
    for a local list that is used in no other way: the accumulating string is what the emission rules read."""
    count = 0
    for fn in ast.walk(tree):
        if not isinstance(fn, ast.FunctionDef):
            continue
        inits, appends, joins, other = {}, {}, {}, set()
        claimed = set()
        for node in ast.walk(fn):
            if isinstance(node, ast.Assign) and len(node.targets) == 1 and isinstance(node.targets[0], ast.Name) and isinstance(node.value, ast.List) and not node.value.elts:
                inits.setdefault(node.targets[0].id, []).append(node)
                claimed.add(id(node.targets[0]))
            elif isinstance(node, ast.Expr) and isinstance(node.value, ast.Call) and isinstance(node.value.func, ast.Attribute) and node.value.func.attr == "append" and \
                    isinstance(node.value.func.value, ast.Name) and len(node.value.args) == 1 and not node.value.keywords:
                appends.setdefault(node.value.func.value.id, []).append(node)
                claimed.add(id(node.value.func.value))
            elif isinstance(node, ast.Call) and isinstance(node.func, ast.Attribute) and node.func.attr == "join" and isinstance(node.func.value, ast.Constant) and \
                    node.func.value.value == "" and len(node.args) == 1 and not node.keywords and isinstance(node.args[0], ast.Name):
                joins.setdefault(node.args[0].id, []).append(node)
                claimed.add(id(node.args[0]))
        for node in ast.walk(fn):
            if isinstance(node, ast.Name) and id(node) not in claimed:
                other.add(node.id)
            if isinstance(node, ast.arg):
                other.add(node.arg)
        names = [n for n in inits if n in appends and n in joins and n not in other]
        if not names:
            continue

        class T(ast.NodeTransformer):
            def visit_Assign(self, node):
                if len(node.targets) == 1 and isinstance(node.targets[0], ast.Name) and node.targets[0].id in names and isinstance(node.value, ast.List):
                    return ast.copy_location(ast.Assign(targets=node.targets, value=ast.copy_location(ast.Constant(value=""), node.value)), node)
                return self.generic_visit(node)

            def visit_Expr(self, node):
                v = node.value
                if isinstance(v, ast.Call) and isinstance(v.func, ast.Attribute) and v.func.attr == "append" and isinstance(v.func.value, ast.Name) and \
                        v.func.value.id in names and len(v.args) == 1:
                    new = ast.AugAssign(target=ast.Name(id=v.func.value.id, ctx=ast.Store()), op=ast.Add(), value=v.args[0])
                    return ast.fix_missing_locations(ast.copy_location(new, node))
                return self.generic_visit(node)

            def visit_Call(self, node):
                if isinstance(node.func, ast.Attribute) and node.func.attr == "join" and isinstance(node.func.value, ast.Constant) and node.func.value.value == "" and \
                        len(node.args) == 1 and isinstance(node.args[0], ast.Name) and node.args[0].id in names:
                    return ast.copy_location(ast.Name(id=node.args[0].id, ctx=ast.Load()), node)
                return self.generic_visit(node)
        T().visit(fn)
        count += len(names)
    return count


def _attr_chain(e):
    """['a', 'b', 'c'] for the expression a.b.c (names and attributes only), else None"""
    parts = []
    while isinstance(e, ast.Attribute):
        parts.append(e.attr)
        e = e.value
    if isinstance(e, ast.Name):
        parts.append(e.id)
        return list(reversed(parts))
    return None


def _unalias_lookups(tree):
    """x = a.b.c  ...  x(...) / x[k]   ->   a.b.c(...) / a.b.c[k]
    for a local that is bound once to an attribute look-up and only read afterwards, when neither `a` nor any prefix of the
    path is rebound from there on: the hoisting of an invariant look-up out of a loop (bound methods, node and edge views,
    module functions) is undone, so that the rules see the call or subscript they are anchored on."""
    count = 0
    for fn in ast.walk(tree):
        if not isinstance(fn, ast.FunctionDef):
            continue
        params = {a.arg for a in fn.args.args + fn.args.kwonlyargs + fn.args.posonlyargs}
        if fn.args.vararg:
            params.add(fn.args.vararg.arg)
        if fn.args.kwarg:
            params.add(fn.args.kwarg.arg)
        own = [n for n in _walk_own(fn)]
        stores = {}
        for n in own:
            if isinstance(n, ast.Name) and isinstance(n.ctx, (ast.Store, ast.Del)):
                stores.setdefault(n.id, []).append(n)
        if any(isinstance(n, (ast.Global, ast.Nonlocal)) for n in own):
            continue
        cands = []
        for n in own:
            if isinstance(n, ast.Assign) and len(n.targets) == 1 and isinstance(n.targets[0], ast.Name) and isinstance(n.value, ast.Attribute):
                name = n.targets[0].id
                chain = _attr_chain(n.value)
                if chain is None or name in params or len(stores.get(name, [])) != 1 or chain[0] == name:
                    continue
                if chain[0] in stores and chain[0] not in params:
                    # the base object is itself a local that is assigned: only safe when it is assigned once, before
                    if len(stores[chain[0]]) != 1 or stores[chain[0]][0].lineno >= n.lineno:
                        continue
                cands.append((n, name, chain))
        if not cands:
            continue
        # nested scopes (closures, comprehensions reading the alias) keep working: loads everywhere below fn are replaced
        for st, name, chain in cands:
            prefixes = {".".join(chain[:i]) for i in range(1, len(chain) + 1)}
            rebound = False
            for n in ast.walk(fn):
                tgt = None
                if isinstance(n, (ast.Attribute, ast.Name)) and isinstance(getattr(n, "ctx", None), (ast.Store, ast.Del)):
                    tgt = n
                if tgt is not None and tgt is not st.targets[0]:
                    c2 = _attr_chain(tgt)
                    if c2 is not None and ".".join(c2) in prefixes and getattr(tgt, "lineno", 0) >= st.lineno:
                        rebound = True
            loads = [n for n in ast.walk(fn) if isinstance(n, ast.Name) and n.id == name and isinstance(n.ctx, ast.Load)]
            if rebound or not loads or any(l.lineno < st.lineno for l in loads):
                continue
            # inside a loop the look-up would be repeated per iteration with the same result: still equal as long as nothing is rebound
            in_loop_rebind = False
            for loop in ast.walk(fn):
                if isinstance(loop, (ast.For, ast.While)) and any(x is st for x in ast.walk(loop)):
                    for n in ast.walk(loop):
                        if isinstance(n, (ast.Attribute, ast.Name)) and isinstance(getattr(n, "ctx", None), (ast.Store, ast.Del)) and n is not st.targets[0]:
                            c2 = _attr_chain(n)
                            if c2 is not None and ".".join(c2) in prefixes:
                                in_loop_rebind = True
            if in_loop_rebind:
                continue

            class R(ast.NodeTransformer):
                def visit_Name(self, n):
                    if n.id == name and isinstance(n.ctx, ast.Load):
                        return ast.copy_location(copy.deepcopy(st.value), n)
                    return n

                def visit_Assign(self, n):
                    if n is st:
                        return ast.copy_location(ast.Pass(), n)
                    return self.generic_visit(n)
            R().visit(fn)
            count += 1
    if count:
        ast.fix_missing_locations(tree)
    return count


def _generator_loops(tree):
    """gen = (ELT for V in SRC if C) ... for T in gen: BODY   ->   for V in SRC: if C: T = ELT; BODY
    for a generator expression with one `for` that is consumed by exactly one for loop (directly or through a local bound
    once): the lazily filtered loop is the plain loop with the filter as a guard."""
    count = 0
    for fn in ast.walk(tree):
        if not isinstance(fn, ast.FunctionDef):
            continue
        own = list(_walk_own(fn))
        stores, loads = {}, {}
        for n in own:
            if isinstance(n, ast.Name):
                (stores if isinstance(n.ctx, (ast.Store, ast.Del)) else loads).setdefault(n.id, []).append(n)
        gens = {}
        for n in own:
            if isinstance(n, ast.Assign) and len(n.targets) == 1 and isinstance(n.targets[0], ast.Name) and isinstance(n.value, ast.GeneratorExp) and \
                    len(n.value.generators) == 1 and not n.value.generators[0].is_async:
                name = n.targets[0].id
                if len(stores.get(name, [])) == 1 and len(loads.get(name, [])) == 1:
                    gens[name] = n

        def rewrite(stmts):
            nonlocal count
            out = []
            for st in stmts:
                for fld in ("body", "orelse", "finalbody"):
                    b = getattr(st, fld, None)
                    if isinstance(b, list) and b and isinstance(b[0], ast.stmt):
                        setattr(st, fld, rewrite(b))
                if isinstance(st, ast.Try):
                    for h in st.handlers:
                        h.body = rewrite(h.body)
                if isinstance(st, ast.Assign) and any(st is g for g in gens.values()) and getattr(st, "_consumed", False):
                    continue
                if isinstance(st, ast.For) and not st.orelse:
                    ge = None
                    if isinstance(st.iter, ast.GeneratorExp) and len(st.iter.generators) == 1 and not st.iter.generators[0].is_async:
                        ge = st.iter
                    elif isinstance(st.iter, ast.Name) and st.iter.id in gens and gens[st.iter.id].lineno < st.lineno:
                        ge = gens[st.iter.id].value
                        gens[st.iter.id]._consumed = True
                    if ge is not None:
                        g = ge.generators[0]
                        bound = {x.id for x in ast.walk(g.target) if isinstance(x, ast.Name)}
                        used_in_body = {x.id for b_ in st.body for x in ast.walk(b_) if isinstance(x, ast.Name)}
                        targets = {x.id for x in ast.walk(st.target) if isinstance(x, ast.Name)}
                        # the generator's own variables must not collide with names of the loop body (they become locals)
                        if not ((bound - targets) & used_in_body):
                            body = list(st.body)
                            if not (isinstance(ge.elt, ast.Name) and isinstance(st.target, ast.Name) and ge.elt.id == st.target.id):
                                body = [ast.copy_location(ast.Assign(targets=[st.target], value=ge.elt), st)] + body
                            for cond in reversed(g.ifs):
                                body = [ast.copy_location(ast.If(test=cond, body=body, orelse=[]), st)]
                            st = ast.copy_location(ast.For(target=g.target, iter=g.iter, body=body, orelse=[]), st)
                            ast.fix_missing_locations(st)
                            count += 1
                out.append(st)
            return out
        fn.body = rewrite(fn.body)
        # drop the consumed generator definitions
        def drop(stmts):
            res = []
            for st in stmts:
                for fld in ("body", "orelse", "finalbody"):
                    b = getattr(st, fld, None)
                    if isinstance(b, list) and b and isinstance(b[0], ast.stmt):
                        setattr(st, fld, drop(b) or [ast.Pass()])
                if isinstance(st, ast.Assign) and getattr(st, "_consumed", False):
                    continue
                res.append(st)
            return res
        fn.body = drop(fn.body) or [ast.Pass()]
    if count:
        ast.fix_missing_locations(tree)
    return count


def _bulk_adds_to_loops(tree):
    """G.add_nodes_from((K, D) for V in S if C)   ->   for V in S: if C: G.add_node(K, **D)
    G.add_edges_from((A, B, D) for ...)           ->   for ...: G.add_edge(A, B, **D)       (D a dict literal: keywords)
    for a comprehension / generator argument with one `for`: the bulk form adds the elements one by one in iteration order."""
    count = [0]

    def element_call(recv, method, elt):
        single = {"add_nodes_from": "add_node", "add_edges_from": "add_edge"}[method]
        func = ast.Attribute(value=copy.deepcopy(recv), attr=single, ctx=ast.Load())
        args, keywords = [], []
        parts = list(elt.elts) if isinstance(elt, ast.Tuple) else None
        n_pos = 1 if method == "add_nodes_from" else 2
        if parts is None:
            if method == "add_nodes_from":
                return None          # a bare node or a (node, dict) pair: not decidable from the expression
            args = [ast.Starred(value=elt, ctx=ast.Load())]
        elif len(parts) == n_pos:
            args = parts
        elif len(parts) == n_pos + 1:
            args = parts[:n_pos]
            d = parts[n_pos]
            if isinstance(d, ast.Dict) and all(isinstance(k, ast.Constant) and isinstance(k.value, str) and k.value.isidentifier() for k in d.keys):
                keywords = [ast.keyword(arg=k.value, value=v) for k, v in zip(d.keys, d.values)]
            else:
                keywords = [ast.keyword(arg=None, value=d)]
        else:
            return None
        return ast.Expr(value=ast.Call(func=func, args=args, keywords=keywords))

    def rewrite(stmts):
        out = []
        for st in stmts:
            for fld in ("body", "orelse", "finalbody"):
                b = getattr(st, fld, None)
                if isinstance(b, list) and b and isinstance(b[0], ast.stmt):
                    setattr(st, fld, rewrite(b))
            if isinstance(st, ast.Try):
                for h in st.handlers:
                    h.body = rewrite(h.body)
            v = st.value if isinstance(st, ast.Expr) else None
            # D.update((K, V) for T in S if C) / D.update({K: V for T in S if C})   ->   for T in S: if C: D[K] = V
            if isinstance(v, ast.Call) and isinstance(v.func, ast.Attribute) and v.func.attr == "update" and len(v.args) == 1 and not v.keywords and \
                    isinstance(v.func.value, ast.Name) and isinstance(v.args[0], (ast.GeneratorExp, ast.ListComp, ast.DictComp)) and \
                    len(v.args[0].generators) == 1 and not v.args[0].generators[0].is_async:
                comp = v.args[0]
                g = comp.generators[0]
                kv = None
                if isinstance(comp, ast.DictComp):
                    kv = (comp.key, comp.value)
                elif isinstance(comp.elt, ast.Tuple) and len(comp.elt.elts) == 2:
                    kv = (comp.elt.elts[0], comp.elt.elts[1])
                if kv is not None:
                    store = ast.Assign(targets=[ast.Subscript(value=ast.Name(id=v.func.value.id, ctx=ast.Load()), slice=kv[0], ctx=ast.Store())], value=kv[1])
                    body = [ast.copy_location(store, st)]
                    for cond in reversed(g.ifs):
                        body = [ast.copy_location(ast.If(test=cond, body=body, orelse=[]), st)]
                    loop = ast.copy_location(ast.For(target=g.target, iter=g.iter, body=body, orelse=[]), st)
                    ast.fix_missing_locations(loop)
                    out.append(loop)
                    count[0] += 1
                    continue
            if isinstance(v, ast.Call) and isinstance(v.func, ast.Attribute) and v.func.attr in ("add_nodes_from", "add_edges_from") and len(v.args) == 1 and \
                    not v.keywords and isinstance(v.args[0], (ast.GeneratorExp, ast.ListComp)) and len(v.args[0].generators) == 1 and \
                    not v.args[0].generators[0].is_async and isinstance(v.func.value, (ast.Name, ast.Attribute)):
                comp = v.args[0]
                g = comp.generators[0]
                call = element_call(v.func.value, v.func.attr, comp.elt)
                if call is not None:
                    body = [ast.copy_location(call, st)]
                    for cond in reversed(g.ifs):
                        body = [ast.copy_location(ast.If(test=cond, body=body, orelse=[]), st)]
                    loop = ast.copy_location(ast.For(target=g.target, iter=g.iter, body=body, orelse=[]), st)
                    ast.fix_missing_locations(loop)
                    out.append(loop)
                    count[0] += 1
                    continue
            out.append(st)
        return out
    for fn in ast.walk(tree):
        if isinstance(fn, ast.FunctionDef):
            fn.body = rewrite(fn.body)
    return count[0]


_NX_ATTRS = {"nodes", "edges", "graph", "adj", "degree", "name", "neighbors", "items", "keys", "values", "index", "count"}


def _namedtuples_to_tuples(tree):
    """A small record type (typing.NamedTuple class without methods, collections.namedtuple) is read as the plain tuple it
    is: X(a, b) -> (a, b); rec.field -> rec[i]; rec._replace(field=v) -> (rec[0], ..., v, ...).  The rules were written
    against tuples and positional access; naming the positions does not change what is stored."""
    classes = {}
    for st in tree.body:
        if isinstance(st, ast.ClassDef) and any((isinstance(b, ast.Name) and b.id == "NamedTuple") or (isinstance(b, ast.Attribute) and b.attr == "NamedTuple")
                                                for b in st.bases):
            fields, defaults, plain = [], {}, True
            for x in st.body:
                if isinstance(x, ast.AnnAssign) and isinstance(x.target, ast.Name):
                    fields.append(x.target.id)
                    if x.value is not None:
                        defaults[x.target.id] = x.value
                elif isinstance(x, ast.Expr) and isinstance(x.value, ast.Constant):
                    continue
                elif isinstance(x, ast.Pass):
                    continue
                else:
                    plain = False
            if plain and fields:
                classes[st.name] = (fields, defaults)
        elif isinstance(st, ast.Assign) and len(st.targets) == 1 and isinstance(st.targets[0], ast.Name) and isinstance(st.value, ast.Call) and \
                ((isinstance(st.value.func, ast.Name) and st.value.func.id == "namedtuple") or
                 (isinstance(st.value.func, ast.Attribute) and st.value.func.attr == "namedtuple")) and len(st.value.args) >= 2 and not st.value.keywords:
            spec = st.value.args[1]
            fields = None
            if isinstance(spec, ast.Constant) and isinstance(spec.value, str):
                fields = spec.value.replace(",", " ").split()
            elif isinstance(spec, (ast.List, ast.Tuple)) and all(isinstance(e, ast.Constant) and isinstance(e.value, str) for e in spec.elts):
                fields = [e.value for e in spec.elts]
            if fields:
                classes[st.targets[0].id] = (fields, {})
    if not classes:
        return 0
    # a class whose instances are used as more than a tuple is left alone
    for node in ast.walk(tree):
        if isinstance(node, ast.Attribute) and node.attr in ("_asdict", "_fields", "_make", "_field_defaults"):
            return 0
    index_of = {}
    ambiguous = set()
    for cname, (fields, _d) in classes.items():
        for i, f in enumerate(fields):
            if f in index_of and index_of[f] != i:
                ambiguous.add(f)
            index_of.setdefault(f, i)
    count = [0]

    def build(cname, call):
        fields, defaults = classes[cname]
        if any(isinstance(a, ast.Starred) for a in call.args) or any(k.arg is None for k in call.keywords) or len(call.args) > len(fields):
            return None
        given = dict(zip(fields, call.args))
        for k in call.keywords:
            if k.arg not in fields or k.arg in given:
                return None
            given[k.arg] = k.value
        elts = []
        for f in fields:
            if f in given:
                elts.append(given[f])
            elif f in defaults:
                elts.append(copy.deepcopy(defaults[f]))
            else:
                return None
        return ast.Tuple(elts=elts, ctx=ast.Load())

    for fn in [n for n in ast.walk(tree) if isinstance(n, ast.FunctionDef)]:
        # local names that certainly hold a record: bound from a constructor call, or ranging over a literal of such calls
        holders = set()
        for n in _walk_own(fn):
            if isinstance(n, ast.Assign) and len(n.targets) == 1 and isinstance(n.targets[0], ast.Name) and isinstance(n.value, ast.Call) and \
                    isinstance(n.value.func, ast.Name) and n.value.func.id in classes:
                holders.add(n.targets[0].id)
            if isinstance(n, (ast.For, ast.comprehension)) and isinstance(n.target, ast.Name):
                it = n.iter
                if isinstance(it, (ast.Tuple, ast.List)) and it.elts and all(isinstance(e, ast.Call) and isinstance(e.func, ast.Name) and e.func.id in classes for e in it.elts):
                    holders.add(n.target.id)

        # ... or over a local bound once to such a literal; the elements of that local are records too
        def is_records(it):
            return isinstance(it, (ast.Tuple, ast.List)) and it.elts and all(isinstance(e, ast.Call) and isinstance(e.func, ast.Name) and e.func.id in classes for e in it.elts)
        stores = {}
        for n in _walk_own(fn):
            if isinstance(n, ast.Name) and isinstance(n.ctx, (ast.Store, ast.Del)):
                stores[n.id] = stores.get(n.id, 0) + 1
        collections_ = set()
        for n in _walk_own(fn):
            if isinstance(n, ast.Assign) and len(n.targets) == 1 and isinstance(n.targets[0], ast.Name) and is_records(n.value) and stores.get(n.targets[0].id) == 1:
                collections_.add(n.targets[0].id)
        for n in _walk_own(fn):
            if isinstance(n, (ast.For, ast.comprehension)) and isinstance(n.target, ast.Name) and isinstance(n.iter, ast.Name) and n.iter.id in collections_:
                holders.add(n.target.id)

        class T(ast.NodeTransformer):
            def visit_Call(self, node):
                if isinstance(node.func, ast.Attribute):
                    node.func._callee = True
                self.generic_visit(node)
                if isinstance(node.func, ast.Name) and node.func.id in classes:
                    t = build(node.func.id, node)
                    if t is not None:
                        count[0] += 1
                        return ast.copy_location(t, node)
                if isinstance(node.func, ast.Attribute) and node.func.attr == "_replace" and not node.args and node.keywords and \
                        all(k.arg in index_of and k.arg not in ambiguous for k in node.keywords):
                    # the record's length: the class that has all the named fields
                    cands = [c for c, (fs, _d) in classes.items() if all(k.arg in fs for k in node.keywords)]
                    if len({len(classes[c][0]) for c in cands}) == 1:
                        n_f = len(classes[cands[0]][0])
                        repl = {index_of[k.arg]: k.value for k in node.keywords}
                        elts = [repl[i] if i in repl else ast.Subscript(value=copy.deepcopy(node.func.value), slice=ast.Constant(value=i), ctx=ast.Load())
                                for i in range(n_f)]
                        count[0] += 1
                        return ast.copy_location(ast.Tuple(elts=elts, ctx=ast.Load()), node)
                return node

            def visit_Attribute(self, node):
                self.generic_visit(node)
                if isinstance(node.ctx, ast.Load) and node.attr in index_of and node.attr not in ambiguous:
                    base = node.value
                    if getattr(node, "_callee", False) and not (isinstance(base, ast.Name) and base.id in holders):
                        return node       # x.remove(...) is a method call, whatever the fields of the record types are called
                    certain = (isinstance(base, ast.Name) and base.id in holders) or \
                        (isinstance(base, ast.Subscript) and isinstance(base.value, ast.Name) and base.value.id in collections_ and
                         isinstance(base.slice, ast.Constant) and isinstance(base.slice.value, int))
                    plausible = node.attr not in _NX_ATTRS and not (isinstance(base, ast.Name) and base.id in ("self", "cls"))
                    if certain or plausible:
                        count[0] += 1
                        return ast.copy_location(ast.Subscript(value=base, slice=ast.Constant(value=index_of[node.attr]), ctx=ast.Load()), node)
                return node
        T().visit(fn)
    if count[0]:
        ast.fix_missing_locations(tree)
    return count[0]


def _unroll_small_loops(tree):
    """for x in (a, b): BODY   ->   BODY[x := a]; BODY[x := b]
    for a loop over a literal tuple / list of at most three simple expressions (also through a local bound once to such a
    literal) with a short body without break / continue / else: "do the same for both ends" written as a loop."""
    count = [0]

    def simple(e):
        if isinstance(e, (ast.Name, ast.Constant)):
            return True
        if isinstance(e, ast.Attribute):
            return simple(e.value)
        if isinstance(e, ast.Subscript):
            return simple(e.value) and simple(e.slice)
        if isinstance(e, ast.Tuple):
            return all(simple(x) for x in e.elts)
        return False

    def in_comprehension_scope(fn):
        """ids of the Name nodes that belong to a comprehension's own scope (its targets and the reads of those targets)"""
        out = set()
        for c in ast.walk(fn):
            if isinstance(c, (ast.ListComp, ast.SetComp, ast.DictComp, ast.GeneratorExp)):
                bound = {x.id for g in c.generators for x in ast.walk(g.target) if isinstance(x, ast.Name)}
                for x in ast.walk(c):
                    if isinstance(x, ast.Name) and x.id in bound:
                        out.add(id(x))
        return out

    # module-level names bound once to a literal tuple of constants (and never rebound through `global`)
    mod_literals = {}
    mod_stores = {}
    for st in tree.body:
        for x in ast.walk(st) if not isinstance(st, (ast.FunctionDef, ast.ClassDef)) else []:
            if isinstance(x, ast.Name) and isinstance(x.ctx, (ast.Store, ast.Del)):
                mod_stores[x.id] = mod_stores.get(x.id, 0) + 1
    has_global = any(isinstance(x, ast.Global) for x in ast.walk(tree))
    for st in tree.body:
        if isinstance(st, ast.Assign) and len(st.targets) == 1 and isinstance(st.targets[0], ast.Name) and isinstance(st.value, ast.Tuple) and \
                st.value.elts and all(isinstance(e, ast.Constant) for e in st.value.elts) and mod_stores.get(st.targets[0].id) == 1 and not has_global:
            mod_literals[st.targets[0].id] = st.value

    for fn in [n for n in ast.walk(tree) if isinstance(n, ast.FunctionDef)]:
        comp_names = in_comprehension_scope(fn)
        own = [n for n in _walk_own(fn) if id(n) not in comp_names]
        stores = {}
        for n in own:
            if isinstance(n, ast.Name) and isinstance(n.ctx, (ast.Store, ast.Del)):
                stores.setdefault(n.id, []).append(n)
        literals = {}
        for n in own:
            if isinstance(n, ast.Assign) and len(n.targets) == 1 and isinstance(n.targets[0], ast.Name) and isinstance(n.value, (ast.Tuple, ast.List)) and \
                    len(stores.get(n.targets[0].id, [])) == 1:
                name = n.targets[0].id
                mutated = any(isinstance(x, ast.Attribute) and isinstance(x.value, ast.Name) and x.value.id == name and
                              x.attr in ("append", "extend", "insert", "pop", "remove", "sort", "reverse", "clear") for x in own)
                if not mutated:
                    literals[name] = n.value

        def rewrite(stmts):
            out = []
            for st in stmts:
                for fld in ("body", "orelse", "finalbody"):
                    b = getattr(st, fld, None)
                    if isinstance(b, list) and b and isinstance(b[0], ast.stmt):
                        setattr(st, fld, rewrite(b))
                if isinstance(st, ast.Try):
                    for h in st.handlers:
                        h.body = rewrite(h.body)
                if isinstance(st, ast.For) and not st.orelse and isinstance(st.target, ast.Name):
                    it = st.iter
                    if isinstance(it, ast.Name) and it.id in literals:
                        it = literals[it.id]
                    elif isinstance(it, ast.Name) and it.id in mod_literals and it.id not in stores and \
                            it.id not in [a.arg for a in fn.args.args + fn.args.kwonlyargs + fn.args.posonlyargs]:
                        it = mod_literals[it.id]
                    tname = st.target.id
                    body_nodes = [x for b_ in st.body for x in ast.walk(b_)]
                    for x in body_nodes:
                        if isinstance(x, ast.Name) and id(x) in comp_names:
                            x._comp_bound = True
                    used_after = False   # conservative: the loop variable must not be read outside the loop
                    reads_elsewhere = [x for x in own if isinstance(x, ast.Name) and x.id == tname and isinstance(x.ctx, ast.Load) and not any(x is y for y in body_nodes)]
                    # the same name as the variable of other loops: the reads inside those loops are theirs
                    others = [x for x in own if isinstance(x, ast.For) and x is not st and isinstance(x.target, ast.Name) and x.target.id == tname and
                              not any(x is y for y in body_nodes) and not any(st is y for y in ast.walk(x))]
                    if others and len(stores.get(tname, [])) == 1 + len(others):
                        theirs = {id(y) for o in others for b_ in o.body for y in ast.walk(b_)}
                        reads_elsewhere = [x for x in reads_elsewhere if id(x) not in theirs]
                        only_loop_var = True
                    else:
                        only_loop_var = len(stores.get(tname, [])) == 1
                    if isinstance(it, (ast.Tuple, ast.List)) and 1 <= len(it.elts) <= 3 and all(simple(e) for e in it.elts) and len(st.body) <= 6 and \
                            not any(isinstance(x, (ast.Break, ast.Continue, ast.FunctionDef, ast.Lambda, ast.Return, ast.Yield)) for x in body_nodes) and \
                            not any(isinstance(x, ast.Name) and x.id == tname and isinstance(x.ctx, (ast.Store, ast.Del)) for x in body_nodes) and \
                            only_loop_var and not reads_elsewhere:
                        # names assigned inside the body would be assigned twice: fine (sequential), they are ordinary locals
                        for e in it.elts:
                            class S(ast.NodeTransformer):
                                def visit_Name(self, n, e=e):
                                    if n.id == tname and isinstance(n.ctx, ast.Load) and not getattr(n, "_comp_bound", False):
                                        return ast.copy_location(copy.deepcopy(e), n)
                                    return n
                            for b_ in st.body:
                                out.append(ast.fix_missing_locations(S().visit(copy.deepcopy(b_))))
                        count[0] += 1
                        continue
                out.append(st)
            return out
        fn.body = rewrite(fn.body)
    if count[0]:
        ast.fix_missing_locations(tree)
    return count[0]


def _walk_own(fn):
    """nodes of fn's own scope (nested function bodies excluded)"""
    stack = list(ast.iter_child_nodes(fn))
    while stack:
        n = stack.pop()
        yield n
        if isinstance(n, (ast.FunctionDef, ast.AsyncFunctionDef, ast.ClassDef, ast.Lambda)):
            continue
        stack.extend(ast.iter_child_nodes(n))


def _module_bindings(tree):
    """top-level names of a module: name -> ('import', key) | ('def', node) | ('const', value node) | ('other',)"""
    out = {}
    for st in tree.body:
        if isinstance(st, ast.Import):
            for al in st.names:
                local = al.asname or al.name.split(".")[0]
                out[local] = ("import", "import:" + (al.name if al.asname else al.name.split(".")[0]))
        elif isinstance(st, ast.ImportFrom):
            for al in st.names:
                out[al.asname or al.name] = ("import", "from:%d:%s:%s" % (st.level, st.module or "", al.name))
        elif isinstance(st, (ast.FunctionDef, ast.AsyncFunctionDef)):
            out[st.name] = ("def", st)
        elif isinstance(st, ast.ClassDef):
            out[st.name] = ("other",)
        elif isinstance(st, ast.Assign):
            for t in st.targets:
                for x in ast.walk(t):
                    if isinstance(x, ast.Name):
                        out[x.id] = ("const", st.value) if len(st.targets) == 1 and isinstance(t, ast.Name) else ("other",)
        elif isinstance(st, (ast.AnnAssign, ast.AugAssign)):
            for x in ast.walk(st.target):
                if isinstance(x, ast.Name):
                    out[x.id] = ("other",)
    return out


def _global_names(fn):
    """names a function (and the functions nested in it) reads from module scope"""
    import symtable
    try:
        top = symtable.symtable(ast.unparse(fn), "<helper>", "exec")
    except (SyntaxError, ValueError):
        return None
    out = set()
    def visit(tab):
        for sym in tab.get_symbols():
            if tab.get_type() != "module" and sym.is_global() and sym.is_referenced():
                out.add(sym.get_name())
            if tab.get_type() != "module" and sym.is_global() and sym.is_assigned():
                out.add("<global statement>")
        for ch in tab.get_children():
            visit(ch)
    visit(top)
    return out


def _literal(v):
    try:
        ast.literal_eval(v)
        return True
    except Exception:
        return False


def import_foreign_helpers(tree, modname, raw_trees):
    """A helper that was moved to another module of the package is still a helper: a function imported with
    `from .other import helper` that is not part of the confirmed inventory of `other` is copied into the importing module
    (together with the unconfirmed functions and literal constants of `other` it uses) and is then inlined like a local one.
    Only when every module-level name the copy reads means the same thing here: the same import, a confirmed function of
    `other` imported here under the same name, or something that is copied along."""
    import builtins as _b
    known = known_functions()
    if known.get(modname) is None:
        return tree, []
    report = []
    here = _module_bindings(tree)
    for st in list(tree.body):
        if not (isinstance(st, ast.ImportFrom) and st.level == 1 and st.module and st.module in raw_trees and st.module != modname):
            continue
        other = st.module
        if known.get(other) is None:
            continue
        there = _module_bindings(raw_trees[other])
        for al in list(st.names):
            b = there.get(al.name)
            if not b or b[0] != "def" or al.name in known[other] or not isinstance(b[1], ast.FunctionDef) or b[1].decorator_list:
                continue
            local = al.asname or al.name
            copies, consts, fine = {local: (al.name, b[1])}, {}, True
            work = [b[1]]
            while work and fine:
                fn = work.pop()
                names = _global_names(fn)
                if names is None or "<global statement>" in names:
                    fine = False
                    break
                for g in sorted(names):
                    if hasattr(_b, g) and g not in there:
                        if g in here:
                            fine = False
                        continue
                    tb = there.get(g)
                    if tb is None:
                        fine = False
                    elif tb[0] == "import":
                        key = tb[1]
                        hb = here.get(g)
                        fine = fine and hb is not None and hb == tb
                    elif tb[0] == "def":
                        if g in known[other]:
                            # a confirmed function of the other module: must be the same name here
                            fine = fine and here.get(g) == ("import", "from:1:%s:%s" % (other, g))
                        elif g == al.name and tb[1] is b[1]:
                            fine = False          # recursive
                        elif g in copies:
                            fine = fine and copies[g][1] is tb[1]
                        elif g in here or not isinstance(tb[1], ast.FunctionDef) or tb[1].decorator_list:
                            fine = False
                        else:
                            copies[g] = (g, tb[1])
                            work.append(tb[1])
                    elif tb[0] == "const" and _literal(tb[1]) and (g not in here or g in consts):
                        consts[g] = tb[1]
                    else:
                        fine = False
                    if not fine:
                        break
            if not fine:
                report.append("%s.%s (imported helper) analysed as a call: its module-level names do not carry over" % (other, al.name))
                continue
            for g, v in consts.items():
                tree.body.append(ast.Assign(targets=[ast.Name(id=g, ctx=ast.Store())], value=copy.deepcopy(v), lineno=1, col_offset=0))
                here[g] = ("const", v)
            for lname, (oname, fn) in copies.items():
                cp = copy.deepcopy(fn)
                cp.name = lname
                tree.body.append(cp)
                here[lname] = ("def", cp)
            st.names.remove(al)
            report.append("%s.%s copied from its module (with %s)" % (other, al.name, ", ".join(sorted(set(copies) - {local}) + sorted(consts)) or "nothing else"))
        if not st.names:
            tree.body.remove(st)
    if report:
        ast.fix_missing_locations(tree)
    return tree, report


def _merge_local_tables(tree):
    """T = {} ... T[k] = v ... OUTER.update(T), with T used for nothing else and OUTER not touched in between: the entries are
    stored in OUTER directly (same keys, same values, same order).  The shape a loop body takes when it was moved into a helper
    that returns its part of the table."""
    n_done = 0
    for fn in [x for x in ast.walk(tree) if isinstance(x, ast.FunctionDef)]:
        # `a, b = (x, y)` with plain names on both sides (what is left of `a, b = helper(...)`) is `a = x; b = y`, and a name
        # that is bound once to another once-bound local is that local
        def split(stmts):
            out = []
            for st in stmts:
                for fld in ("body", "orelse", "finalbody"):
                    b = getattr(st, fld, None)
                    if isinstance(b, list) and b and isinstance(b[0], ast.stmt) and not isinstance(st, (ast.FunctionDef, ast.ClassDef)):
                        setattr(st, fld, split(b))
                for hnd in getattr(st, "handlers", []) or []:
                    hnd.body = split(hnd.body)
                if isinstance(st, ast.Assign) and len(st.targets) == 1 and isinstance(st.targets[0], ast.Tuple) and isinstance(st.value, ast.Tuple) and \
                        len(st.targets[0].elts) == len(st.value.elts) and all(isinstance(x, ast.Name) for x in st.targets[0].elts + st.value.elts) and \
                        not ({x.id for x in st.targets[0].elts} & {x.id for x in st.value.elts}) and len({x.id for x in st.targets[0].elts}) == len(st.targets[0].elts):
                    for t_, v_ in zip(st.targets[0].elts, st.value.elts):
                        out.append(ast.copy_location(ast.Assign(targets=[t_], value=v_), st))
                    continue
                out.append(st)
            return out
        fn.body = split(fn.body)
        stores = {}
        for x in _walk_own(fn):
            if isinstance(x, ast.Name) and isinstance(x.ctx, (ast.Store, ast.Del)):
                stores[x.id] = stores.get(x.id, 0) + 1
        params = {a.arg for a in fn.args.args + fn.args.kwonlyargs + fn.args.posonlyargs}
        alias = {}
        for x in _walk_own(fn):
            if isinstance(x, ast.Assign) and len(x.targets) == 1 and isinstance(x.targets[0], ast.Name) and isinstance(x.value, ast.Name) and \
                    stores.get(x.targets[0].id) == 1 and stores.get(x.value.id) == 1 and x.targets[0].id not in params and x.value.id not in params and \
                    x.value.id.rsplit("_i", 1)[-1].isdigit():
                alias[x.targets[0].id] = (x.value.id, x)
        if alias:
            class _A(ast.NodeTransformer):
                def visit_Name(self, n):
                    if isinstance(n.ctx, ast.Load) and n.id in alias:
                        return ast.copy_location(ast.Name(id=alias[n.id][0], ctx=ast.Load()), n)
                    return n
            dead = {id(v[1]) for v in alias.values()}
            def drop(stmts):
                out = []
                for st in stmts:
                    if id(st) in dead:
                        continue
                    for fld in ("body", "orelse", "finalbody"):
                        b = getattr(st, fld, None)
                        if isinstance(b, list) and b and isinstance(b[0], ast.stmt) and not isinstance(st, (ast.FunctionDef, ast.ClassDef)):
                            setattr(st, fld, drop(b) or [ast.copy_location(ast.Pass(), st)])
                    for hnd in getattr(st, "handlers", []) or []:
                        hnd.body = drop(hnd.body) or [ast.copy_location(ast.Pass(), st)]
                    out.append(st)
                return out
            fn.body = drop(fn.body)
            _A().visit(fn)
            ast.fix_missing_locations(fn)

        def blocks(node):
            for fld in ("body", "orelse", "finalbody"):
                b = getattr(node, fld, None)
                if isinstance(b, list) and b and isinstance(b[0], ast.stmt):
                    yield b
                    for st in b:
                        if not isinstance(st, (ast.FunctionDef, ast.ClassDef)):
                            yield from blocks(st)
            for hnd in getattr(node, "handlers", []) or []:
                yield hnd.body
                for st in hnd.body:
                    yield from blocks(st)
        for block in list(blocks(fn)):
            i = 0
            while i < len(block):
                st = block[i]
                i += 1
                if not (isinstance(st, ast.Assign) and len(st.targets) == 1 and isinstance(st.targets[0], ast.Name) and
                        ((isinstance(st.value, ast.Dict) and not st.value.keys) or
                         (isinstance(st.value, ast.Call) and isinstance(st.value.func, ast.Name) and st.value.func.id == "dict" and not st.value.args and not st.value.keywords))):
                    continue
                T = st.targets[0].id
                j = None
                for k in range(i, len(block)):
                    x = block[k]
                    if isinstance(x, ast.Expr) and isinstance(x.value, ast.Call) and isinstance(x.value.func, ast.Attribute) and x.value.func.attr == "update" and \
                            len(x.value.args) == 1 and not x.value.keywords and isinstance(x.value.args[0], ast.Name) and x.value.args[0].id == T and \
                            _attr_chain(x.value.func.value):
                        j = k
                        break
                if j is None:
                    continue
                outer = block[j].value.func.value
                outer_text = ast.unparse(outer)
                root = outer_text.split(".")[0]
                between = block[i:j]
                uses = [x for x in ast.walk(fn) if isinstance(x, ast.Name) and x.id == T]
                stores = [x for b_ in between for x in ast.walk(b_) if isinstance(x, ast.Subscript) and isinstance(x.ctx, ast.Store) and
                          isinstance(x.value, ast.Name) and x.value.id == T]
                if len(uses) != 2 + len(stores) or not stores:
                    continue
                touched = any((isinstance(x, (ast.Name, ast.Attribute)) and ast.unparse(x) == outer_text) or
                              (isinstance(x, ast.Name) and x.id == root and isinstance(x.ctx, (ast.Store, ast.Del)))
                              for b_ in between for x in ast.walk(b_))
                if touched:
                    continue
                for x in stores:
                    x.value = copy.deepcopy(outer)
                del block[j]
                del block[i - 1]
                i -= 1
                n_done += 1
    if n_done:
        ast.fix_missing_locations(tree)
    return n_done


def _symbol_helpers_to_predicates(tree, modname):
    """The writer asks "does this edge need a symbol" and then looks the symbol up.  A refactoring folds both into one helper
    that returns the symbol or the empty string: `sym = edge_symbol(mol, i, j)`.  Such a helper (three positional parameters,
    every return is '' or TABLE[...]) is read as the predicate it contains; the call sites are rewritten to the form the
    emission model knows,

        sym = ''
        if helper(mol, i, j)[ and cond]:
            sym = TABLE[mol.edges[i, j].get('order', 1)]

    and the helper itself is kept as a function (its truth table is judged by TT.edge-symbol: '' is "no symbol").  That the
    returned symbol is TABLE[order of that edge] is part of what the helper is checked for: every non-empty return must be
    a subscript of one table by a value read from `mol.edges[i, j]`."""
    if modname != "write_cgsmiles":
        return set()
    helpers = {}
    inner_pred = {}
    for st in tree.body:
        if not isinstance(st, ast.FunctionDef) or st.decorator_list:
            continue
        a = st.args
        if len(a.args) != 3 or a.vararg or a.kwarg or a.kwonlyargs:
            continue
        rets = [r.value for r in ast.walk(st) if isinstance(r, ast.Return)]
        if len(rets) < 2 and not (len(rets) == 1 and isinstance(rets[0], ast.IfExp)):
            continue
        leaves = []
        for r in rets:
            stack = [r]
            while stack:
                x = stack.pop()
                if isinstance(x, ast.IfExp):
                    stack += [x.body, x.orelse]
                else:
                    leaves.append(x)
        tables = set()
        ok = True
        empty = False
        for x in leaves:
            if isinstance(x, ast.Constant) and x.value == "":
                empty = True
            elif isinstance(x, ast.Subscript) and isinstance(x.value, ast.Name):
                tables.add(x.value.id)
            else:
                ok = False
        if ok and empty and len(tables) == 1:
            # the subscript must be derived from the edge of the two node parameters
            src = ast.unparse(st)
            if ".edges[" in src and "order" in src:
                helpers[st.name] = tables.pop()
                # a thin wrapper `if P(mol, i, j): return TABLE[...]` / `return ''` around a predicate P: the call sites ask P
                pnames = [x.arg for x in a.args]
                ifs = [x for x in ast.walk(st) if isinstance(x, (ast.If, ast.IfExp))]
                if len(ifs) == 1:
                    tst, neg = ifs[0].test, False
                    if isinstance(tst, ast.UnaryOp) and isinstance(tst.op, ast.Not):
                        tst, neg = tst.operand, True
                    if isinstance(tst, ast.Call) and isinstance(tst.func, ast.Name) and not tst.keywords and [getattr(x, "id", None) for x in tst.args] == pnames:
                        # polarity: the symbol is returned where P holds
                        if isinstance(ifs[0], ast.IfExp):
                            true_arm = ifs[0].body
                        else:
                            r0 = [x.value for x in ifs[0].body if isinstance(x, ast.Return)]
                            true_arm = r0[0] if r0 else None
                        arm_is_symbol = isinstance(true_arm, ast.Subscript)
                        arm_is_empty = isinstance(true_arm, ast.Constant) and true_arm.value == ""
                        if (not neg and arm_is_symbol) or (neg and arm_is_empty):
                            inner_pred[st.name] = tst.func.id
    # a local re-implementation of the predicate itself (three parameters, looks at the order of the edge, returns a truth
    # value) stays a function as well: TT.edge-symbol judges its truth table
    predicates = set()
    for st in tree.body:
        if isinstance(st, ast.FunctionDef) and not st.decorator_list and st.name not in helpers and len(st.args.args) == 3 and \
                not st.args.vararg and not st.args.kwarg:
            src = ast.unparse(st)
            rets = [r.value for r in ast.walk(st) if isinstance(r, ast.Return) and r.value is not None]
            if ".edges[" in src and "order" in src and "aromatic" in src and rets and \
                    all(isinstance(r, (ast.BoolOp, ast.UnaryOp, ast.Compare, ast.Name, ast.Constant)) for r in rets) and \
                    not any(isinstance(r, ast.Constant) and isinstance(r.value, str) for r in rets):
                predicates.add(st.name)
    if not helpers:
        return predicates
    n = 0

    def edge_order(call):
        mol = call.args[0]
        if len(call.args) == 3 and not any(isinstance(x, ast.Starred) for x in call.args):
            key = ast.Tuple(elts=[call.args[1], call.args[2]], ctx=ast.Load())
        elif len(call.args) == 2 and isinstance(call.args[1], ast.Starred):
            key = call.args[1].value
        else:
            return None
        edges = ast.Subscript(value=ast.Attribute(value=mol, attr="edges", ctx=ast.Load()), slice=key, ctx=ast.Load())
        return ast.Call(func=ast.Attribute(value=edges, attr="get", ctx=ast.Load()), args=[ast.Constant("order"), ast.Constant(1)], keywords=[])

    class T(ast.NodeTransformer):
        def visit_FunctionDef(self, node):
            if node.name in helpers:
                return node
            self.generic_visit(node)
            return node

        def visit_Assign(self, node):
            nonlocal n
            if len(node.targets) != 1 or not isinstance(node.targets[0], ast.Name):
                return node
            v = node.value
            cond = None
            if isinstance(v, ast.IfExp) and isinstance(v.orelse, ast.Constant) and v.orelse.value == "":
                cond, v = v.test, v.body
            if not (isinstance(v, ast.Call) and isinstance(v.func, ast.Name) and v.func.id in helpers and not v.keywords):
                return node
            order = edge_order(v)
            if order is None:
                return node
            tgt = node.targets[0].id
            if v.func.id in inner_pred:
                v = ast.copy_location(ast.Call(func=ast.Name(id=inner_pred[v.func.id], ctx=ast.Load()), args=v.args, keywords=[]), v)
            test = v if cond is None else ast.BoolOp(op=ast.And(), values=[v, cond])
            look = ast.Subscript(value=ast.Name(id=helpers[node.value.func.id if isinstance(node.value, ast.Call) else node.value.body.func.id], ctx=ast.Load()), slice=order, ctx=ast.Load())
            out = [ast.Assign(targets=[ast.Name(id=tgt, ctx=ast.Store())], value=ast.Constant(""), lineno=node.lineno),
                   ast.If(test=test, body=[ast.Assign(targets=[ast.Name(id=tgt, ctx=ast.Store())], value=look, lineno=node.lineno)], orelse=[])]
            for o in out:
                ast.copy_location(o, node)
            n += 1
            return out
    tree = T().visit(tree)
    if n:
        ast.fix_missing_locations(tree)
        return set(helpers) | predicates
    return predicates


def _append_loops_to_comprehensions(tree):
    """`xs = []` directly followed by `for t in it: [tmp = e]* xs.append(v)` is the list comprehension `[v for t in it]`
    (temporaries substituted) when the temporaries and the loop target are not read outside the loop.  Rules that recognise
    "the list of <attribute> over <iteration>" read one form."""
    n = [0]

    class _Subst(ast.NodeTransformer):
        def __init__(self, m):
            self.m = m

        def visit_Name(self, node):
            if isinstance(node.ctx, ast.Load) and node.id in self.m:
                return copy.deepcopy(self.m[node.id])
            return node

    def loads_outside(fn, names, skip):
        skip_ids = {id(x) for x in ast.walk(skip)}
        for x in ast.walk(fn):
            if isinstance(x, ast.Name) and x.id in names and id(x) not in skip_ids:
                return True
        return False

    def rewrite(fn, body):
        out = []
        i = 0
        while i < len(body):
            st = body[i]
            nxt = body[i + 1] if i + 1 < len(body) else None
            done = False
            if isinstance(st, ast.Assign) and len(st.targets) == 1 and isinstance(st.targets[0], ast.Name) and isinstance(st.value, ast.List) and not st.value.elts \
                    and isinstance(nxt, ast.For) and not nxt.orelse and nxt.body and isinstance(nxt.target, (ast.Name, ast.Tuple)):
                acc = st.targets[0].id
                last = nxt.body[-1]
                temps = nxt.body[:-1]
                if isinstance(last, ast.Expr) and isinstance(last.value, ast.Call) and isinstance(last.value.func, ast.Attribute) and last.value.func.attr == "append" and \
                        isinstance(last.value.func.value, ast.Name) and last.value.func.value.id == acc and len(last.value.args) == 1 and not last.value.keywords and \
                        all(isinstance(t, ast.Assign) and len(t.targets) == 1 and isinstance(t.targets[0], ast.Name) for t in temps):
                    tnames = [t.targets[0].id for t in temps]
                    target_names = {x.id for x in ast.walk(nxt.target) if isinstance(x, ast.Name)}
                    uses_acc = any(isinstance(x, ast.Name) and x.id == acc for t in temps for x in ast.walk(t)) or \
                        any(isinstance(x, ast.Name) and x.id == acc for x in ast.walk(last.value.args[0])) or \
                        any(isinstance(x, ast.Name) and x.id == acc for x in ast.walk(nxt.iter))
                    if len(set(tnames)) == len(tnames) and not uses_acc and not loads_outside(fn, set(tnames) | target_names, nxt) and \
                            not any(isinstance(x, (ast.Yield, ast.YieldFrom, ast.Await, ast.NamedExpr)) for x in ast.walk(nxt)):
                        m = {}
                        for t in temps:
                            m[t.targets[0].id] = _Subst(dict(m)).visit(copy.deepcopy(t.value))
                        elt = _Subst(m).visit(copy.deepcopy(last.value.args[0]))
                        comp = ast.ListComp(elt=elt, generators=[ast.comprehension(target=copy.deepcopy(nxt.target), iter=nxt.iter, ifs=[], is_async=0)])
                        new = ast.Assign(targets=[ast.Name(id=acc, ctx=ast.Store())], value=comp)
                        ast.copy_location(new, st)
                        ast.fix_missing_locations(new)
                        out.append(new)
                        i += 2
                        n[0] += 1
                        done = True
            if not done:
                for fld in ("body", "orelse", "finalbody"):
                    sub = getattr(st, fld, None)
                    if isinstance(sub, list) and sub and isinstance(sub[0], ast.stmt) and not isinstance(st, (ast.FunctionDef, ast.AsyncFunctionDef, ast.ClassDef)):
                        setattr(st, fld, rewrite(fn, sub))
                if isinstance(st, ast.Try):
                    for h in st.handlers:
                        h.body = rewrite(fn, h.body)
                out.append(st)
                i += 1
        return out

    for node in ast.walk(tree):
        if isinstance(node, (ast.FunctionDef, ast.AsyncFunctionDef)):
            node.body = rewrite(node, node.body)
    return n[0]


def _networkx_view_forms(tree):
    """Two spellings of NetworkX look-ups are read in the form the rules are written for:
    `{n: d[KEY] for n, d in G.nodes.items() if KEY in d}` (also over G.nodes(data=True)) is what nx.get_node_attributes(G, KEY)
    is defined as, and `for attrs in G.nodes.values(): ...` is `for n in G.nodes: attrs = G.nodes[n]; ...`."""
    alias = None
    for st in tree.body:
        if isinstance(st, ast.Import):
            for a in st.names:
                if a.name == "networkx":
                    alias = a.asname or "networkx"
    count = [0]

    def nodes_view_items(it):
        # G.nodes.items()  /  G.nodes(data=True)  ->  G
        if isinstance(it, ast.Call) and isinstance(it.func, ast.Attribute) and it.func.attr == "items" and not it.args and not it.keywords and \
                isinstance(it.func.value, ast.Attribute) and it.func.value.attr == "nodes":
            return it.func.value.value
        if isinstance(it, ast.Call) and isinstance(it.func, ast.Attribute) and it.func.attr == "nodes" and not it.args and len(it.keywords) == 1 and \
                it.keywords[0].arg == "data" and isinstance(it.keywords[0].value, ast.Constant) and it.keywords[0].value.value is True:
            return it.func.value
        return None

    class T(ast.NodeTransformer):
        def visit_DictComp(self, node):
            self.generic_visit(node)
            if alias is None or len(node.generators) != 1:
                return node
            g = node.generators[0]
            G = nodes_view_items(g.iter)
            if G is None or not (isinstance(g.target, ast.Tuple) and len(g.target.elts) == 2 and all(isinstance(e, ast.Name) for e in g.target.elts)):
                return node
            k, d = g.target.elts[0].id, g.target.elts[1].id
            if not (isinstance(node.key, ast.Name) and node.key.id == k and isinstance(node.value, ast.Subscript) and isinstance(node.value.value, ast.Name) and
                    node.value.value.id == d and isinstance(node.value.slice, ast.Constant) and isinstance(node.value.slice.value, str)):
                return node
            key = node.value.slice.value
            if not (len(g.ifs) == 1 and isinstance(g.ifs[0], ast.Compare) and len(g.ifs[0].ops) == 1 and isinstance(g.ifs[0].ops[0], ast.In) and
                    isinstance(g.ifs[0].left, ast.Constant) and g.ifs[0].left.value == key and isinstance(g.ifs[0].comparators[0], ast.Name) and
                    g.ifs[0].comparators[0].id == d):
                return node
            count[0] += 1
            new = ast.Call(func=ast.Attribute(value=ast.Name(id=alias, ctx=ast.Load()), attr="get_node_attributes", ctx=ast.Load()),
                           args=[G, ast.Constant(key)], keywords=[])
            return ast.fix_missing_locations(ast.copy_location(new, node))

        def visit_For(self, node):
            self.generic_visit(node)
            it = node.iter
            if isinstance(node.target, ast.Name) and isinstance(it, ast.Call) and isinstance(it.func, ast.Attribute) and it.func.attr == "values" and not it.args and \
                    not it.keywords and isinstance(it.func.value, ast.Attribute) and it.func.value.attr == "nodes":
                count[0] += 1
                kname = "_nk%d" % count[0]
                view = it.func.value
                first = ast.Assign(targets=[ast.Name(id=node.target.id, ctx=ast.Store())],
                                   value=ast.Subscript(value=copy.deepcopy(view), slice=ast.Name(id=kname, ctx=ast.Load()), ctx=ast.Load()))
                ast.copy_location(first, node)
                node.target = ast.copy_location(ast.Name(id=kname, ctx=ast.Store()), node.target)
                node.iter = view
                node.body = [first] + node.body
                ast.fix_missing_locations(node)
            return node
    T().visit(tree)
    return count[0]


def _temp_str_accumulators(tree):
    """Inside a loop body:  t = ''; [if c:] t += x; ...; acc += t + rest   ->   [if c:] acc += x; ...; acc += rest
    when `acc` is not touched between `t = ''` and the statement that appends `t`, `t` is the leftmost operand there and is
    not used anywhere else: the pieces reach the accumulator in the same order either way.  The emission rules read the
    accumulator."""
    count = [0]

    def names_in(node):
        return {x.id for x in ast.walk(node) if isinstance(x, ast.Name)}

    def leftmost(e):
        while isinstance(e, ast.BinOp) and isinstance(e.op, ast.Add):
            e = e.left
        return e

    def drop_leftmost(e):
        if isinstance(e, ast.BinOp) and isinstance(e.op, ast.Add):
            if isinstance(e.left, ast.BinOp) and isinstance(e.left.op, ast.Add):
                return ast.copy_location(ast.BinOp(left=drop_leftmost(e.left), op=ast.Add(), right=e.right), e)
            return e.right
        return None

    def rewrite(fn, body):
        i = 0
        while i < len(body):
            st = body[i]
            if isinstance(st, ast.Assign) and len(st.targets) == 1 and isinstance(st.targets[0], ast.Name) and isinstance(st.value, ast.Constant) and st.value.value == "":
                t = st.targets[0].id
                # the statement that appends t to another name
                use = None
                for j in range(i + 1, len(body)):
                    u = body[j]
                    if isinstance(u, ast.AugAssign) and isinstance(u.op, ast.Add) and isinstance(u.target, ast.Name) and u.target.id != t and \
                            isinstance(leftmost(u.value), ast.Name) and leftmost(u.value).id == t:
                        use = j
                        break
                if use is not None:
                    acc = body[use].target.id
                    between = body[i + 1:use]
                    ok = True
                    for b in between:
                        for x in ast.walk(b):
                            if isinstance(x, ast.Name) and x.id == acc:
                                ok = False
                            if isinstance(x, ast.Name) and x.id == t and not (isinstance(x.ctx, ast.Store)):
                                ok = False
                            if isinstance(x, (ast.For, ast.While, ast.Try, ast.With, ast.FunctionDef, ast.Return, ast.Break, ast.Continue)):
                                ok = False
                        # only `t += e` stores, possibly under ifs
                        for x in ast.walk(b):
                            if isinstance(x, ast.Assign) and t in names_in(x.targets[0]):
                                ok = False
                            if isinstance(x, ast.AugAssign) and isinstance(x.target, ast.Name) and x.target.id == t and not isinstance(x.op, ast.Add):
                                ok = False
                    rest_uses = sum(1 for k, b in enumerate(body) if k not in range(i, use + 1) for x in ast.walk(b) if isinstance(x, ast.Name) and x.id == t)
                    other = sum(1 for x in ast.walk(fn) if isinstance(x, ast.Name) and x.id == t)
                    inside = sum(1 for b in body[i:use + 1] for x in ast.walk(b) if isinstance(x, ast.Name) and x.id == t)
                    t_in_use = sum(1 for x in ast.walk(body[use].value) if isinstance(x, ast.Name) and x.id == t)
                    if ok and rest_uses == 0 and other == inside and t_in_use == 1:
                        class R(ast.NodeTransformer):
                            def visit_AugAssign(self, node):
                                if isinstance(node.target, ast.Name) and node.target.id == t:
                                    node.target = ast.copy_location(ast.Name(id=acc, ctx=ast.Store()), node.target)
                                return node
                        for b in between:
                            R().visit(b)
                        rest = drop_leftmost(body[use].value)
                        new_use = [] if rest is None else [ast.copy_location(ast.AugAssign(target=ast.Name(id=acc, ctx=ast.Store()), op=ast.Add(), value=rest), body[use])]
                        body[i:use + 1] = between + new_use
                        for b in body:
                            ast.fix_missing_locations(b)
                        count[0] += 1
                        continue
            for fld in ("body", "orelse", "finalbody"):
                sub = getattr(st, fld, None)
                if isinstance(sub, list) and sub and isinstance(sub[0], ast.stmt) and not isinstance(st, (ast.FunctionDef, ast.AsyncFunctionDef, ast.ClassDef)):
                    rewrite(fn, sub)
            i += 1

    for node in ast.walk(tree):
        if isinstance(node, (ast.FunctionDef, ast.AsyncFunctionDef)):
            for sub in ast.walk(node):
                if isinstance(sub, (ast.For, ast.While)):
                    rewrite(node, sub.body)
    return count[0]


def _specialise_kwargs_helpers(tree):
    """`def helper(a, b, **options): ... target(x, **options)` called as `helper(p, q, k1=v1, k2=v2)`: the helper only hands its
    keyword arguments on.  For every such call a copy of the helper with the keywords spelled out (`helper__k1_k2(a, b, k1, k2)`
    with `target(x, k1=k1, k2=k2)`) is added and called instead, so that the inliner - which does not touch **kwargs - can put
    the body in place.  Only module-level functions whose **parameter is used in no other way than as `**name` in calls."""
    funcs = {st.name: st for st in tree.body if isinstance(st, ast.FunctionDef)}
    cands = {}
    for name, fn in funcs.items():
        a = fn.args
        if not a.kwarg or a.vararg or a.posonlyargs or fn.decorator_list:
            continue
        kw = a.kwarg.arg
        uses = [x for x in ast.walk(fn) if isinstance(x, ast.Name) and x.id == kw]
        stars = [k.value for c in ast.walk(fn) if isinstance(c, ast.Call) for k in c.keywords if k.arg is None and isinstance(k.value, ast.Name) and k.value.id == kw]
        if uses and len(uses) == len(stars):
            cands[name] = fn
    if not cands:
        return 0
    made = {}
    n = [0]

    class T(ast.NodeTransformer):
        def visit_Call(self, node):
            self.generic_visit(node)
            if isinstance(node.func, ast.Name) and node.func.id in cands and not any(isinstance(x, ast.Starred) for x in node.args) and \
                    all(k.arg is not None for k in node.keywords):
                fn = cands[node.func.id]
                named = {x.arg for x in fn.args.args + fn.args.kwonlyargs}
                extra = [k.arg for k in node.keywords if k.arg not in named]
                if not extra:
                    return node
                key = (fn.name, tuple(sorted(extra)))
                if key not in made:
                    new = copy.deepcopy(fn)
                    new.name = fn.name + "__" + "_".join(sorted(extra))
                    kwname = fn.args.kwarg.arg
                    new.args.kwarg = None
                    for e in sorted(extra):
                        new.args.kwonlyargs.append(ast.arg(arg=e))
                        new.args.kw_defaults.append(None)
                    for c in ast.walk(new):
                        if isinstance(c, ast.Call):
                            ks = []
                            for k in c.keywords:
                                if k.arg is None and isinstance(k.value, ast.Name) and k.value.id == kwname:
                                    ks += [ast.keyword(arg=e, value=ast.Name(id=e, ctx=ast.Load())) for e in sorted(extra)]
                                else:
                                    ks.append(k)
                            c.keywords = ks
                    made[key] = new
                node.func = ast.copy_location(ast.Name(id=made[key].name, ctx=ast.Load()), node.func)
                n[0] += 1
            return node
    T().visit(tree)
    for key, new in made.items():
        idx = tree.body.index(funcs[key[0]])
        tree.body.insert(idx + 1, new)
    if made:
        ast.fix_missing_locations(tree)
    return n[0]


def inline_module(tree, modname):
    sym_helpers = _symbol_helpers_to_predicates(tree, modname)
    n_rec = _namedtuples_to_tuples(tree)
    n_unroll = _unroll_small_loops(tree)
    n_alias = _unalias_lookups(tree)
    n_gen = _generator_loops(tree)
    n_bulk = _bulk_adds_to_loops(tree)
    n_acc = _list_acc_to_str(tree)
    jt = _JoinToLoop()
    tree = jt.run(tree)
    n_kw = _specialise_kwargs_helpers(tree) if known_functions().get(modname) is not None else 0
    inl = Inliner(tree, modname)
    if n_kw:
        inl.report.append("%d calls of helpers that only hand **kwargs on read with the keywords spelled out" % n_kw)
    if sym_helpers and inl.known is not None:
        inl.known = set(inl.known) | sym_helpers
    tree = inl.run()
    n_app = _append_loops_to_comprehensions(tree) if inl.known is not None else 0
    n_nxf = _networkx_view_forms(tree) if inl.known is not None else 0
    n_tmp = _temp_str_accumulators(tree) if inl.known is not None else 0
    if n_tmp:
        inl.report.append("%d per-iteration string temporaries read as direct appends to the accumulator" % n_tmp)
    if n_nxf:
        inl.report.append("%d NetworkX look-ups spelled out (attribute dict comprehension, nodes.values() loop) read in their library form" % n_nxf)
    if n_app:
        inl.report.append("%d list-building loops (xs = []; for ...: xs.append(v)) read as list comprehensions" % n_app)
    if sym_helpers:
        inl.report.append("symbol-returning helper(s) %s read as the edge-needs-symbol predicate" % ", ".join(sorted(sym_helpers)))
    n_tab = _merge_local_tables(tree) if inl.report else 0
    if n_tab:
        inl.report.append("%d local tables merged with update() read as direct stores" % n_tab)
    if jt.n:
        ast.fix_missing_locations(tree)
        inl.report.append("%d string joins over a comprehension read as accumulation loops" % jt.n)
    if n_acc:
        ast.fix_missing_locations(tree)
        inl.report.append("%d list accumulators joined with the empty string read as string accumulators" % n_acc)
    if n_alias:
        inl.report.append("%d hoisted attribute look-ups read in place" % n_alias)
    if n_unroll:
        inl.report.append("%d loops over a short literal sequence read as the repeated statements" % n_unroll)
    if n_rec:
        inl.report.append("%d uses of small record types (NamedTuple) read as plain tuples" % n_rec)
    if n_gen:
        inl.report.append("%d loops over a generator expression read as filtered loops" % n_gen)
    if n_bulk:
        inl.report.append("%d bulk add_nodes_from / add_edges_from calls read as loops" % n_bulk)
    return tree, inl.report
