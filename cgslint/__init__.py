"""cgslint - repository-specific static checker for gruenewald-lab/CGsmiles.

Nothing in here imports or executes code from the repository under analysis.
Every verdict is computed from ``ast`` trees (and, for one cross-check, from
bytecode produced by ``compile`` - compiled, never run).
"""

REPO_DEFAULT = "/repo"
PACKAGE = "cgsmiles"


class AnalysisError(Exception):
    """An anchor vanished or a construct is outside the language a rule can
    interpret.  Reported as ANALYSIS-ERROR (exit 2), never as a VIOLATION."""

    def __init__(self, msg, where=None):
        super().__init__(msg)
        self.where = where
