"""Thorough tier extras (placeholder, filled in later)."""


def run(prop, repo_root, seed):
    return 0
