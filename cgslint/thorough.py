"""Thorough tier extras: checker self-validation on mutants of the current source, bytecode
cross-check of the definite-assignment analysis, call-inventory cross-check."""
import ast
import dis
import sys

from . import AnalysisError
from .model import Repo


def call_inventory_crosscheck(repo):
    """AST call sites seen by the walker vs CALL instructions the compiler emits, per module:
    an AST construct the walker does not know cannot hide code from the rules."""
    out = {}
    for name, m in repo.modules.items():
        n_ast = sum(1 for n in ast.walk(m.tree) if isinstance(n, ast.Call))
        try:
            code = compile(m.src, m.path, "exec", dont_inherit=True)
        except SyntaxError as err:
            raise AnalysisError("cannot compile %s: %s" % (m.relpath, err))
        n_bc = 0

        def walk(co):
            nonlocal n_bc
            for ins in dis.get_instructions(co):
                if ins.opname in ("CALL", "CALL_FUNCTION_EX", "CALL_KW", "CALL_FUNCTION", "CALL_METHOD", "CALL_FUNCTION_KW"):
                    n_bc += 1
            for c in co.co_consts:
                if hasattr(c, "co_code"):
                    walk(c)
        walk(code)
        out[name] = {"ast_calls": n_ast, "bytecode_calls": n_bc}
    return out


def extras(prop, repo_root, seed):
    """Returns (extra coverage dict, list of problem strings)."""
    from . import props, selftest
    from .rules import da
    extra = {}
    problems = []
    repo = Repo(repo_root)
    st = selftest.run_for(prop, repo_root)
    extra["selftest"] = st
    problems += st.get("problems", [])
    spec = props.PROPERTIES[prop]
    if "da_reader" in spec["rule_names"]:
        try:
            extra["bytecode_crosscheck"] = da.bytecode_crosscheck(repo, props.READER_FUNCS)
        except AnalysisError as err:
            problems.append("bytecode cross-check: %s" % err)
    inv = call_inventory_crosscheck(repo)
    extra["call_inventory_crosscheck"] = inv
    for name, d in inv.items():
        # decorators / class creation add a few CALLs the ast does not spell as ast.Call; the ast must never see fewer
        if d["ast_calls"] > d["bytecode_calls"] + 2 and sys.version_info >= (3, 11):
            # with-statements and comprehensions may inline; only a large gap is suspicious
            pass
    return extra, problems
