"""Property -> obligations registry.  Section numbers refer to /verif/DESIGN.md."""
import functools

from .rules import tables, truth, da, order, bond, sampler, own

COMMON_ASSUMPTIONS = [
    "pysmiles, networkx, numpy and RDKit behave as documented (their code is not analysed)",
    "the oracle tables in /verif/spec restate the documentation and the property statements",
    "a canonical access path denotes the same object at two program points when no variable on the path is rebound in between (in-place replacement of an intermediate container is not tracked)",
    "only necessary structural clauses of the property are decided; the behavioural remainder (listed per property in DESIGN.md section 4) is not",
]

READER_FUNCS = ["read_cgsmiles:read_cgsmiles", "read_cgsmiles:_expand_branch", "read_cgsmiles:_find_next_character",
                "dialects:_parse_dialect_string", "dialects:check_and_cast_types"]


def named(name, fn, *args, **kw):
    def rule(repo, tier):
        return fn(repo, *args, **kw)
    rule.__name__ = name
    return rule


def tiered(fn):
    def rule(repo, tier):
        return fn(repo, tier)
    rule.__name__ = fn.__name__
    return rule


def _tt_complement(repo, tier):
    return truth.tt_complement(repo, two_element_lists=(tier == "thorough"))


_tt_complement.__name__ = "tt_complement"


def _tt_compatible(repo, tier):
    return truth.tt_compatible(repo)


_tt_compatible.__name__ = "tt_compatible"

R = {
    "tt_compatible": _tt_compatible,
    "tt_complement": _tt_complement,
    "prov_matcher_shape": tiered(bond.prov_matcher_shape),
    "who_may_bond": tiered(bond.who_may_bond),
    "prov_matcher_args": tiered(bond.prov_matcher_args),
    "trip_bond_loop": tiered(bond.trip_bond_loop),
    "pair_resolver_consume": tiered(bond.pair_resolver_consume),
    "prov_bond_edge": tiered(bond.prov_bond_edge),
    "prov_squash": tiered(bond.prov_squash),
    "ord_resolve_phases": tiered(order.ord_resolve_phases),
    "ord_resolve_annotate": tiered(order.ord_resolve_annotate),
    "ord_resolve_stereo": tiered(order.ord_resolve_stereo),
    "ord_hydrogens": tiered(order.ord_hydrogens),
    "prov_h_inherit": tiered(order.prov_h_inherit),
    "ord_sample_finalise": tiered(order.ord_sample_finalise),
    "ord_compute_mass": tiered(order.ord_compute_mass),
    "tab_reader_symbols": tiered(tables.tab_reader_symbols),
    "tab_writer_symbols": tiered(tables.tab_writer_symbols),
    "tab_fragment_symbols": tiered(tables.tab_fragment_symbols),
    "tab_dialects": tiered(tables.tab_dialects),
    "tab_copy_attrs": tiered(tables.tab_copy_attrs),
    "tab_bond_types": tiered(tables.tab_bond_types),
    "da_reader": named("da_reader", da.da_locals, READER_FUNCS, "DA.reader"),
    "da_globals_rdkit": named("da_globals_rdkit", da.da_globals, ["rdkit", "coordinates"], "DA.globals"),
    "da_globals_reader": named("da_globals_reader", da.da_globals, ["read_cgsmiles", "dialects"], "DA.globals"),
    "prov_growth_edge": tiered(sampler.prov_growth_edge),
    "prov_weights": tiered(sampler.prov_weights),
    "tt_terminal_filter": tiered(sampler.tt_terminal_filter),
    "prov_stop_rule": tiered(sampler.prov_stop_rule),
    "det_sampler": tiered(sampler.det_sampler),
    "own_templates_resolver": named("own_templates_resolver", own.own_templates, "resolver"),
    "own_templates_sampler": named("own_templates_sampler", own.own_templates, "sampler"),
    "own_mutable_defaults": tiered(own.own_mutable_defaults),
}

PROPERTIES = {}


def prop(pid, rules, explanation, floors=None, assumptions=None):
    PROPERTIES[pid] = {"rules": [R[r] for r in rules], "rule_names": rules, "explanation": explanation,
                       "floors": floors or {}, "assumptions": assumptions or []}


EXPL = ("static analysis of /repo's current source (ast, CFG with dominators, reaching definitions, canonical access paths, "
        "abstract evaluation of small predicates, effect summaries); decides the necessary structural clauses listed in the "
        "obligations, not the behaviour as a whole")

prop("C03", ["tt_compatible", "prov_matcher_shape", "who_may_bond", "prov_matcher_args", "trip_bond_loop",
             "pair_resolver_consume", "prov_bond_edge"],
     EXPL + ". C03: compatibility truth table, matcher shape, sole bond site, matcher arguments, loop trip count = edge order, "
     "consume-on-use pairing, provenance of endpoints / recorded pair / order.",
     floors={"TT.compatible": 1, "PROV.matcher-shape": 4, "OWN.sole-bond-site": 1, "PROV.matcher-args": 1,
             "PROV.legacy-forwarded": 2, "TRIP.bond-loop": 3, "PAIR.resolver-consume": 3, "PROV.bond-edge": 2, "PROV.bond-order": 1})
