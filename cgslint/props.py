"""Property -> obligations registry.  Section numbers refer to /verif/DESIGN.md."""
import functools

from .rules import tables, truth, da, order, bond, sampler, own, exc, keys, sib, prov, tok, emit, extra, ring, gaps, round7

COMMON_ASSUMPTIONS = [
    "pysmiles, networkx, numpy and RDKit behave as documented (their code is not analysed)",
    "the oracle tables in /verif/spec restate the documentation and the property statements",
    "a canonical access path denotes the same object at two program points when no variable on the path is rebound in between (in-place replacement of an intermediate container is not tracked)",
    "only necessary structural clauses of the property are decided; the behavioural remainder (listed per property in DESIGN.md section 4) is not",
]

READER_FUNCS = ["read_cgsmiles:read_cgsmiles", "read_cgsmiles:_expand_branch", "read_cgsmiles:_find_next_character",
                "dialects:_parse_dialect_string", "dialects:check_and_cast_types"]


def named(name, fn, *args, **kw):
    def rule(repo, tier):
        return fn(repo, *args, **kw)
    rule.__name__ = name
    return rule


def tiered(fn):
    def rule(repo, tier):
        return fn(repo, tier)
    rule.__name__ = fn.__name__
    return rule


def _tt_complement(repo, tier):
    return truth.tt_complement(repo, two_element_lists=(tier == "thorough"))


_tt_complement.__name__ = "tt_complement"


def _tt_compatible(repo, tier):
    return truth.tt_compatible(repo)


_tt_compatible.__name__ = "tt_compatible"

R = {
    "tt_compatible": _tt_compatible,
    "tt_complement": _tt_complement,
    "prov_matcher_shape": tiered(bond.prov_matcher_shape),
    "who_may_bond": tiered(bond.who_may_bond),
    "prov_matcher_args": tiered(bond.prov_matcher_args),
    "trip_bond_loop": tiered(bond.trip_bond_loop),
    "pair_resolver_consume": tiered(bond.pair_resolver_consume),
    "prov_bond_edge": tiered(bond.prov_bond_edge),
    "prov_squash": tiered(bond.prov_squash),
    "ord_resolve_phases": tiered(order.ord_resolve_phases),
    "ord_resolve_annotate": tiered(order.ord_resolve_annotate),
    "ord_resolve_stereo": tiered(order.ord_resolve_stereo),
    "ord_hydrogens": tiered(order.ord_hydrogens),
    "prov_h_inherit": tiered(order.prov_h_inherit),
    "ord_sample_finalise": tiered(order.ord_sample_finalise),
    "ord_compute_mass": tiered(order.ord_compute_mass),
    "tab_reader_symbols": tiered(tables.tab_reader_symbols),
    "tab_writer_symbols": tiered(tables.tab_writer_symbols),
    "tab_fragment_symbols": tiered(tables.tab_fragment_symbols),
    "tab_dialects": tiered(tables.tab_dialects),
    "tab_copy_attrs": tiered(tables.tab_copy_attrs),
    "tab_bond_types": tiered(tables.tab_bond_types),
    "da_reader": named("da_reader", da.da_locals, READER_FUNCS, "DA.reader"),
    "da_resolver": named("da_resolver", da.da_modules, ["resolve", "pysmiles_utils", "graph_utils", "cgsmiles_utils", "read_fragments", "dialects"], "DA.resolver"),
    "da_sampler": named("da_sampler", da.da_modules, ["sample", "cgsmiles_utils"], "DA.sampler"),
    "da_writer": named("da_writer", da.da_modules, ["write_cgsmiles"], "DA.writer"),
    "da_rdkit": named("da_rdkit", da.da_modules, ["rdkit", "coordinates"], "DA.rdkit"),
    "da_layout": named("da_layout", da.da_modules, ["graph_layout", "graph_layout_utils", "linalg_functions"], "DA.layout",
                       only={"graph_layout": ["graph_layout:vespr_layout"]}),
    "key_layout": tiered(keys.key_layout),
    "tt_order_defaults": tiered(sampler.tt_order_defaults),
    "ring_marker_text": tiered(ring.ring_marker_text),
    "tab_node_token": tiered(tables.tab_node_token),
    "prov_kept_hydrogens": tiered(extra.prov_kept_hydrogens),
    "tt_layer_format": tiered(extra.tt_layer_format),
    "prov_sampler_setup": tiered(sampler.prov_sampler_setup),
    "da_self_attrs_sampler": named("da_self_attrs_sampler", da.da_self_attrs, [("sample", "MoleculeSampler")]),
    "da_self_attrs_resolver": named("da_self_attrs_resolver", da.da_self_attrs, [("resolve", "MoleculeResolver")]),
    "ord_complete_loops_mass": named("ord_complete_loops_mass", extra.ord_complete_loops, "quick", extra.COMPLETE_LOOPS_MASS),
    "ord_complete_loops_rdkit": named("ord_complete_loops_rdkit", extra.ord_complete_loops, "quick", extra.COMPLETE_LOOPS_RDKIT),
    "tt_relative_dispatch": tiered(prov.tt_relative_dispatch),
    "exc_raise_inventory": tiered(exc.exc_raise_inventory),
    "prov_slash_marks": tiered(extra.prov_slash_marks),
    "da_globals_rdkit": named("da_globals_rdkit", da.da_globals, ["rdkit", "coordinates"], "DA.globals"),
    "da_globals_reader": named("da_globals_reader", da.da_globals, ["read_cgsmiles", "dialects"], "DA.globals"),
    "prov_growth_edge": tiered(sampler.prov_growth_edge),
    "prov_weights": tiered(sampler.prov_weights),
    "tt_terminal_filter": tiered(sampler.tt_terminal_filter),
    "prov_stop_rule": tiered(sampler.prov_stop_rule),
    "det_sampler": tiered(sampler.det_sampler),
    "own_templates_resolver": named("own_templates_resolver", own.own_templates, "resolver"),
    "own_templates_sampler": named("own_templates_sampler", own.own_templates, "sampler"),
    "own_mutable_defaults": tiered(own.own_mutable_defaults),
    "exc_dangling_ring": tiered(exc.exc_dangling_ring),
    "sib_ring_handlers": tiered(ring.ring_protocol),
    "exc_duplicate_edge": tiered(exc.exc_duplicate_edge),
    "exc_missing_fragment": tiered(exc.exc_missing_fragment),
    "exc_annotations": tiered(exc.exc_annotations),
    "exc_handlers": tiered(exc.exc_handlers),
    "key_fragid": tiered(keys.key_fragid),
    "prov_annotate_lookup": tiered(keys.prov_annotate_lookup),
    "key_rdkit": tiered(keys.key_rdkit),
    "norm_bead": tiered(keys.norm_bead),
    "norm_scale": tiered(keys.norm_scale),
    "sib_atomistic_level": tiered(sib.sib_atomistic_level),
    "ord_resolve_handover": tiered(sib.ord_resolve_handover),
    "sib_drivers": tiered(sib.sib_drivers),
    "sib_constructors": tiered(sib.sib_constructors),
    "sib_multiplier_scans": tiered(sib.sib_multiplier_scans),
    "prov_sort_key": tiered(prov.prov_sort_key),
    "prov_relative_attr": tiered(prov.prov_relative_attr),
    "prov_fragdict_by_key": tiered(prov.prov_fragdict_by_key),
    "prov_copy_complete": tiered(prov.prov_copy_complete),
    "prov_node_attributes": tiered(prov.prov_node_attributes),
    "ord_parse_pipeline": tiered(prov.ord_parse_pipeline),
    "trip_multiplier": tiered(prov.trip_multiplier),
    "det_resolver": tiered(prov.det_resolver),
    "tok_rules": tiered(tok.tok_rules),
    "emit_format_bonding": tiered(emit.emit_format_bonding),
    "emit_write_graph": tiered(emit.emit_write_graph),
    "prov_atom_names": tiered(extra.prov_atom_names),
    "prov_open_bonds": tiered(extra.prov_open_bonds),
    "prov_rdkit_attrs": tiered(extra.prov_rdkit_attrs),
    "prov_ring_edges": tiered(ring.ring_protocol),
    "sent_order_zero": tiered(extra.sent_order_zero),
    "sent_anchor_key": tiered(extra.sent_anchor_key),
    "prov_option_forwarding": tiered(extra.prov_option_forwarding),
    "prov_hcount_bookkeeping": tiered(extra.prov_hcount_bookkeeping),
    "sent_annotation_value": tiered(extra.sent_annotation_value),
    "prov_fragment_attrs": tiered(extra.prov_fragment_attrs),
    "own_layout_input": tiered(extra.own_layout_input),
    "own_fresh_fragment": tiered(extra.own_fresh_fragment),
    "prov_after_branch_order": tiered(extra.prov_after_branch_order),
    "prov_hcount_bookkeeping_sampler": tiered(extra.prov_hcount_bookkeeping_sampler),
    "tok_fragment_multiplier": tiered(gaps.tok_fragment_multiplier),
    "sib_fragment_dialect": tiered(gaps.sib_fragment_dialect),
    "trip_branch_close": tiered(gaps.trip_branch_close),
    "sib_fragment_node_names": tiered(gaps.sib_fragment_node_names),
    "exc_fragment_strict": tiered(gaps.exc_fragment_strict),
    "prov_rdkit_sanitize": tiered(gaps.prov_rdkit_sanitize),
    "ord_anchor_reset": tiered(gaps.ord_anchor_reset),
    "idx_scan_bound": tiered(gaps.idx_scan_bound),
    "sel_rotate_component": tiered(round7.sel_rotate_component),
    "own_resolver_input": tiered(round7.own_resolver_input),
    "ord_repetition_state": tiered(round7.ord_repetition_state),
    "prov_rdkit_source": tiered(round7.prov_rdkit_source),
    "det_level_state": tiered(round7.det_level_state),
    "idx_branch_stop": tiered(round7.idx_branch_stop),
    "exc_cast_spellings": tiered(round7.exc_cast_spellings),
    "det_sampler_state": tiered(round7.det_sampler_state),
    "own_meta_edges": tiered(round7.own_meta_edges),
    "prov_fragment_text": tiered(round7.prov_fragment_text),
    "key_parity_of_distance": tiered(round7.key_parity_of_distance),
    "prov_valence_choice": tiered(round7.prov_valence_choice),
    "key_edge_orientation": tiered(round7.key_edge_orientation),
    "sent_numeric_attrs": tiered(extra.sent_numeric_attrs),
    "ord_complete_loops": tiered(extra.ord_complete_loops),
    "own_mutable_defaults_layout": named("own_mutable_defaults_layout", own.own_mutable_defaults, "quick", tuple(own.SKIP_MODULES), 2),
    "det_shared_state_sampler": named("det_shared_state_sampler", extra.det_shared_state,
                                      ["sample:MoleculeSampler.__init__", "sample:MoleculeSampler.sample", "sample:MoleculeSampler.add_fragment",
                                       "sample:MoleculeSampler.from_fragment_string"]),
    "det_shared_state_layout": named("det_shared_state_layout", extra.det_shared_state, ["graph_layout:vespr_layout"], "DET.shared-state", "quick", 5),
    "own_mutable_defaults_sampler": named("own_mutable_defaults_sampler", own.own_mutable_defaults, "quick", ("sample",), 2),
    "null_guard_layout": tiered(keys.null_guard_layout),
    "det_shared_state_reader": named("det_shared_state_reader", extra.det_shared_state,
                                     ["read_cgsmiles:read_cgsmiles", "read_fragments:read_fragments", "read_fragments:strip_bonding_descriptors",
                                      "dialects:_parse_dialect_string", "dialects:check_and_cast_types"], "DET.shared-state", "quick", 8),
    "det_loop_state_reader": named("det_loop_state_reader", da.det_loop_state, ["read_cgsmiles:read_cgsmiles", "read_cgsmiles:_expand_branch"]),
    "det_loop_state_tok": named("det_loop_state_tok", da.det_loop_state, ["read_fragments:strip_bonding_descriptors", "read_fragments:collect_ring_number"]),
    "det_loop_state_writer": named("det_loop_state_writer", da.det_loop_state, ["write_cgsmiles:write_graph", "write_cgsmiles:format_bonding"]),
    "det_loop_state_resolver": named("det_loop_state_resolver", da.det_loop_state, ["resolve:MoleculeResolver.edges_from_bonding_descrpt", "resolve:MoleculeResolver.squash_atoms",
                                                                                  "resolve:match_bonding_descriptors", "resolve:MoleculeResolver.resolve_disconnected_molecule"]),
    "det_loop_state_sampler": named("det_loop_state_sampler", da.det_loop_state, ["sample:MoleculeSampler.sample", "sample:MoleculeSampler.add_fragment"]),
    "det_shared_state_resolver": named("det_shared_state_resolver", extra.det_shared_state, prov.RESOLVER_ROOTS),
}

PROPERTIES = {}


# Defects of the package found by an independent testing round (DESIGN section 16) that no rule reports: the behaviour
# stated by the property is violated on legal inputs although every structural clause below is discharged.
OPEN_DEFECTS = {
    "D5": ("`))` pops one branch anchor: {[#A]([#B]([#C]))[#D]} attaches D to B", ["C04", "C01", "C11", "C14", "C20", "C05", "C02"]),
    "D6": ("`|n` inside a coarse fragment shifts descriptor and annotation indices: {#X=[#A]|3[#C][$]}", ["C13", "C06", "C02", "C03", "C05", "C14", "C16"]),
    "D8": ("nested / repeated branch multipliers are not the written-out graph: {[#A]([#B]([#C])[#D])|3}", ["C05", "C06", "C11", "C20"]),
    "D9": ("a bond order at the closing ring marker is dropped: {[#A]1[#B][#C]=1}", ["C04", "C01"]),
    "D10": ("long keywords charge= / weight= are overwritten by the default: {[#A;charge=1]}", ["C04", "C14"]),
    "D11": ("the aromatic correction reads stale hydrogen counts ([nH] next to a cut, S/O in lowercase rings, shared aromatic atoms)", ["C01", "C09", "C10"]),
    "D12": ("squash keeps only fragid/mapping of the removed copy (annotations, weights, E/Z marks, names)", ["C10", "C14", "C15", "C18", "C12", "C02"]),
    "D13": ("cis/trans depends on the order of the fragments; a slash before a descriptor marks the next atom", ["C15", "C10"]),
    "D14": ("greedy first-match pairing gives fewer bonds than the edge order for ambiguous descriptors", ["C03", "C08"]),
    "D15": ("annotations of coarse fragment nodes are not written (the node names, the other half of D15, are repaired: d3a864c)", ["C08"]),
    "D16": ("element masses count a hydrogen per open descriptor; labels ending in a digit are read as orders in the tables", ["C17"]),
    "D17": ("the RDKit bridge re-perceives aromaticity and rewrites pentavalent N; UFF fails on order-0 bonds", ["C18"]),
    "D18": ("a lone node without fragment and without edges resolves to an empty molecule (the dangling ring index inside an all-atom fragment, the other half of D18, is repaired: 2cec6f4)", ["C20"]),
}


def prop(pid, rules, decided, undecided, floors=None, assumptions=None):
    reported = {"D5", "D6", "D17"}      # rules/gaps.py states a necessary condition for these: KNOWN-FINDING lines
    known = ["%s (%s%s)" % (k, v[0], ", reported as KNOWN-FINDING" if k in reported else ", not reported by any rule") for k, v in OPEN_DEFECTS.items() if pid in v[1]]
    if known:
        undecided = undecided + "; KNOWN VIOLATIONS of the behaviour, found by testing (DESIGN 16): " + "; ".join(known)
    PROPERTIES[pid] = {"rules": [R[r] for r in rules], "rule_names": rules,
                       "explanation": EXPL + " Decided for %s: %s. Not decided: %s." % (pid, decided, undecided),
                       "decided": decided, "undecided": undecided,
                       "floors": floors or {}, "assumptions": assumptions or []}


EXPL = ("Static analysis of /repo's current source, nothing is executed: ast, hand-built CFG with dominators, reaching definitions, "
        "canonical access paths, abstract evaluation of small predicates over finite domains, effect summaries, emission models. "
        "Each obligation is a necessary structural clause of the property; the behaviour as a whole is not decided.")

prop("C01", ["da_self_attrs_resolver", "da_resolver", "prov_bond_edge", "tok_rules", "ord_resolve_phases", "sib_atomistic_level", "prov_copy_complete", "ord_complete_loops", "prov_hcount_bookkeeping", "ord_hydrogens"],
     "the cut bond's order travels from descriptor to bond (int(d[-1]) / 1.5 iff both ends aromatic); a bond-order symbol is consumed by exactly "
     "one thing in the fragment tokenizer (ring digits and atoms clear the pending order); phase order instantiate < connect < squash < hydrogens < sort; "
     "reader and resolver agree on which level is atomistic; fragment copies are complete",
     "equality with the original molecule: hydrogen counts, aromatic orders, charges come from pysmiles; choice of descriptor pair is data dependent",
     floors={"DA.self-attrs": 7, "DA.resolver": 37, "PROV.hcount-bookkeeping": 2, "ORD.complete-loops": 19, "PROV.bond-order": 1, "TOK.T2-ring": 2, "TOK.T3-atom": 4, "TOK.invariant": 1, "ORD.resolve-phases": 10, "SIB.S4-atomistic-level": 4})
prop("C02", ["key_fragid", "prov_annotate_lookup", "ord_resolve_annotate", "tab_copy_attrs", "prov_h_inherit", "prov_copy_complete", "prov_squash", "ord_complete_loops"],
     "membership is written in the key space it is read in; annotate_fragments files each fine node under the coarse keys it records; the per-node graphs "
     "are derived after sorting and after the last change of the fine node set; hydrogens inherit fragid/fragname/weight from their heavy atom; "
     "merge_graphs copies all nodes, edges and attributes of a template",
     "isomorphism of each block with its template after squashing and hydrogen completion; content of 'mapping'",
     floors={"ORD.complete-loops": 19, "PAIR.squash-membership": 1, "KEY.K1-fragid": 1, "PROV.annotate-lookup": 3, "ORD.resolve-annotate": 6, "TAB.copy_attrs": 3, "PROV.h-inherit": 3, "PROV.copy-complete": 5})
prop("C03", ["det_loop_state_resolver", "tt_compatible", "prov_matcher_shape", "who_may_bond", "prov_matcher_args", "trip_bond_loop",
             "pair_resolver_consume", "prov_bond_edge", "sent_order_zero", "ord_complete_loops", "det_shared_state_resolver", "prov_option_forwarding"],
     "compatibility truth table over 320 abstract states; matcher shape; sole bond site; matcher arguments are the two ends of the iterated base-graph edge; "
     "loop trip count = edge order from 0; consume-on-use pairing on every path; provenance of endpoints, recorded pair and order",
     "'exactly that many' bonds depends on first-match search order over runtime lists",
     floors={"DET.loop-state": 4, "PROV.option-forwarding": 8, "ORD.complete-loops": 19, "SENT.order-zero": 20, "TT.compatible": 1, "PROV.matcher-shape": 4, "OWN.sole-bond-site": 1, "PROV.matcher-args": 1,
             "PROV.legacy-forwarded": 2, "TRIP.bond-loop": 3, "PAIR.resolver-consume": 3, "PROV.bond-edge": 2, "PROV.bond-order": 1})
prop("C04", ["det_loop_state_reader", "det_shared_state_reader", "ring_marker_text", "exc_raise_inventory", "tab_reader_symbols", "da_reader", "da_globals_reader", "sib_ring_handlers", "prov_node_attributes", "sent_order_zero", "prov_after_branch_order", "tab_node_token", "tab_dialects"],
     "a sliver: the reader's symbol table equals the documented one and its guard admits every symbol; no possibly-unbound local on a feasible path of the "
     "reader functions; the %nn and digit ring handlers perform the same open/close protocol; a ring bond joins opening and closing node with the order "
     "written at the opening marker and the pending ring order is reset after every marker; node attributes come from the node's own text",
     "whether nodes, edges and orders are the ones the grammar denotes: index arithmetic over the pattern string (simultaneous branch closings, "
     "unbounded %nn digits) has no structural witness in reach",
     floors={"DET.loop-state": 2, "DET.shared-state": 8, "TOK.ring-marker-text": 1, "EXC.raise-inventory": 6, "PROV.after-branch-order": 2, "SENT.order-zero": 20, "TAB.reader-symbols": 2, "DA.reader": 5, "SIB.S2-ring-handlers": 3, "PROV.ring-edges": 5, "PROV.node-attributes": 4})
prop("C05", ["det_loop_state_reader", "da_reader", "trip_multiplier", "sib_multiplier_scans", "sent_anchor_key", "sent_order_zero", "prov_after_branch_order", "prov_node_attributes"],
     "definite assignment in the branch expansion block (base_anchor); trip counts of node loop, recipe entries, _expand_branch and the branch loop "
     "(multiplier - 1); both multiplier number scans stop at the same token set including the order symbols",
     "isomorphism of shorthand and longhand for nested anchors (prev_node + offset arithmetic), bond orders between copies",
     floors={"DET.loop-state": 2, "PROV.after-branch-order": 2, "SENT.anchor-key": 1, "DA.reader": 5, "TRIP.multiplier": 4, "SIB.S3-multiplier-scan": 2})
prop("C06", ["sib_atomistic_level", "ord_resolve_handover", "sib_drivers", "ord_resolve_phases", "prov_squash", "prov_bond_edge", "own_fresh_fragment", "prov_option_forwarding"],
     "reader and resolver use the same 'last level and last_all_atom' predicate (linear normal form); hand-over of fine graph to coarse graph, names, "
     "level dictionary, counter advanced once after last use; resolve_iter / resolve_all only delegate",
     "isomorphism with the flattened two-level string; per-step guarantees are decided under C02/C03",
     floors={"OWN.fresh-fragment": 2, "ORD.resolve-phases": 10, "SIB.S4-atomistic-level": 4, "ORD.resolve-handover": 4, "SIB.S7-drivers": 3, "PROV.level-index": 2, "ORD.counter": 1})
prop("C07", ["det_loop_state_writer", "da_writer", "tab_writer_symbols", "emit_write_graph", "prov_ring_edges", "sent_order_zero", "prov_option_forwarding", "prov_after_branch_order"],
     "writer table restricted to 0..4 is the inverse of the reader's table and the documented one; per-node and per-ring emission words over all "
     "guard assignments: tree-edge symbol present iff needed and placed where the reader of that format looks (before '(' in CGsmiles, inside in "
     "OpenSMILES), ring symbol immediately before a new marker iff needed, independent of the node-format flag",
     "that the reader reconstructs the graph from a string of the documented language (C04), DFS and ring-marker allocation, more than 9 open rings",
     floors={"DET.loop-state": 2, "DA.writer": 6, "EMIT.marker-order": 1, "PROV.ring-marker": 2, "PROV.ring-edges": 5, "TAB.writer-symbols": 2, "EMIT.write_graph": 2, "SIB.S5-format-flag": 1})
prop("C08", ["ring_marker_text", "tt_layer_format", "da_writer", "emit_format_bonding", "tab_fragment_symbols", "tok_rules", "emit_write_graph", "prov_option_forwarding"],
     "format_bonding only ever extends its accumulator and writes SYM? '[' descriptor[:-1] ']' per descriptor with the symbol of its own order for "
     "orders 0, 2, 3, 4; the fragment reader maps every written symbol back to its order; the tokenizer's descriptor rules incl. `is not None` for the pending order",
     "equality of the re-read fragment graphs (pysmiles writes and parses the atoms); coarse fragments are written with the fragment's name in place of "
     "each node's own name (seen while reading, outside the rules)",
     floors={"TOK.ring-marker-text": 1, "TT.layer-format": 1, "DA.writer": 6, "EMIT.write_graph": 2, "EMIT.format_bonding": 4, "TAB.fragment-symbols": 2, "SENT.pending-order": 1, "TOK.T5-descriptor": 6})
prop("C09", ["ord_resolve_phases", "ord_sample_finalise", "ord_hydrogens", "tab_copy_attrs", "prov_h_inherit", "sent_numeric_attrs", "ord_complete_loops", "own_templates_sampler", "prov_hcount_bookkeeping", "prov_hcount_bookkeeping_sampler", "prov_kept_hydrogens", "own_mutable_defaults"],
     "every all-atom path of resolver and sampler passes the hydrogen rebuild after the last connectivity change and before renumbering; inside the rebuild: "
     "reset hcount to 0 < fill_valence(respect_hcount=False) < add_explicit_hydrogens, aromatic correction < fill; keep_bonding unused; hydrogens inherit attributes",
     "the numbers themselves (valence lists, charges, aromatic correction) are pysmiles'",
     floors={"SENT.numeric-attribute": 30, "ORD.resolve-phases": 10, "ORD.sample-finalise": 5, "ORD.hydrogens": 9, "TAB.copy_attrs": 3, "PROV.h-inherit": 3})
prop("C10", ["ord_hydrogens", "prov_squash", "ord_resolve_phases", "prov_bond_edge", "tt_compatible", "prov_hcount_bookkeeping", "prov_matcher_args"],
     "contraction exactly for '!' pairs (truth table over kinds); merged nodes are the bond's endpoints followed through earlier merges, the removed node is "
     "recorded; self_loops=False; result assigned back; kept node's fragid/mapping extended on every path; connect < squash < hydrogens; the pair is recorded on the bond",
     "equivalence with the disjoint description; aromaticity and hydrogen refill on the merged graph",
     floors={"PROV.squash-one-atom": 1, "TT.compatible": 1, "PROV.squash-protocol": 6, "PAIR.squash-membership": 1, "ORD.resolve-phases": 10})
prop("C11", ["trip_bond_loop", "exc_missing_fragment", "key_fragid", "sent_order_zero", "prov_annotate_lookup", "ord_complete_loops"],
     "range(0, order) bounds bonds per edge (none for order 0); a fragment-less node is skipped only if all incident orders are 0, else SyntaxError, and "
     "creates no fine nodes; skipping a node does not shift the membership of the others",
     "that the fine molecule is unchanged follows from these plus C03 only for the clauses decided there",
     floors={"SENT.order-zero": 20, "TRIP.bond-loop": 3, "EXC.X3-missing-fragment": 3, "KEY.K1-fragid": 1})
prop("C12", ["own_templates_resolver", "own_mutable_defaults", "det_resolver", "sib_constructors", "prov_sort_key", "prov_fragdict_by_key", "prov_atom_names", "prov_annotate_lookup", "key_fragid", "det_shared_state_resolver", "own_fresh_fragment", "prov_option_forwarding"],
     "no function reachable from the resolver mutates a fragment template or library (effect summaries at structure / attribute / value depth; shared "
     "value flows judged against reachable in-place mutation sites); 11 mutable defaults are read-only; no nondeterminism source or order-sensitive set "
     "iteration on resolver paths; constructors forward options and split levels identically; new keys are positions in (membership, old key) order; "
     "fragment dictionaries are only accessed by key; atom names are element + position within the coarse node's atom list",
     "contiguity of blocks; determinism of pysmiles itself is assumed; shared atoms are named once per coarse node they belong to",
     floors={"DET.shared-state": 15, "OWN.templates-resolver": 10, "OWN.mutable-defaults": 1, "DET.resolver": 15, "SIB.S1-constructors": 9, "PROV.sort-key": 4, "PROV.fragdict-by-key": 2, "PROV.atom-names": 2})
prop("C13", ["det_loop_state_tok", "det_shared_state_reader", "tok_rules", "tab_dialects", "tab_fragment_symbols", "ord_parse_pipeline", "sent_annotation_value"],
     "dispatch map and per-branch effects of the tokenizer: T0 text conservation, T1 symbols set the pending order, T2 ring digits go to the previous atom "
     "and clear the pending order, T3 atoms advance (previous := counter; counter += 1) and clear it, annotations under the pre-increment index, T4 "
     "branch stack, T5 descriptor text / atom / order sources / consume, T6 slashes, and the invariant over admissible token successions",
     "anything about the cleaned text being valid SMILES; `( symbol descriptor )` leaves an empty branch",
     floors={"DET.loop-state": 2, "DET.shared-state": 8, "ORD.parse-pipeline": 3, "TAB.fragment-symbols": 2, "TOK.T0-conservation": 3, "TOK.T1-symbol": 1, "TOK.T2-ring": 2, "TOK.T3-atom": 6, "TOK.T4-branch": 2, "TOK.T5-descriptor": 8,
             "TOK.T6-slash": 1, "TOK.invariant": 1, "SENT.pending-order": 1})
prop("C14", ["det_shared_state_reader", "tab_dialects", "ord_parse_pipeline", "prov_node_attributes", "prov_copy_complete", "exc_annotations", "prov_h_inherit", "sent_numeric_attrs", "ord_complete_loops", "sent_annotation_value", "prov_fragment_attrs", "tab_node_token"],
     "both dialect signatures, defaults, types, rename maps equal the documented table; bind < cast < defaults, cast < rename, cast keyed by name over all "
     "bound arguments; base-graph node attributes come from the node's own text (also for multiplied copies and recipes); fragment copies keep all attributes",
     "numeric spellings (python's float); `q=` at the coarse-fragment level is parsed by the atomistic dialect (seen while reading, outside the rules)",
     floors={"DET.shared-state": 8, "SENT.annotation-value": 2, "PROV.fragment-attrs": 2, "SENT.numeric-attribute": 30, "SENT.attribute-value": 1, "TAB.dialects": 3, "ORD.parse-pipeline": 6, "PROV.node-attributes": 4, "PROV.copy-complete": 5})
prop("C15", ["prov_fragment_attrs", "tt_relative_dispatch", "prov_slash_marks", "ord_resolve_stereo", "prov_relative_attr", "tok_rules", "prov_copy_complete", "prov_kept_hydrogens", "prov_sort_key"],
     "the cis/trans annotation runs after the last relabelling and after hydrogens exist, on the relabelled graph; node-referencing attributes are "
     "remapped through the relabelling map and shifted on merge; slash marks are recorded for the atoms around them; chirality annotations are copied",
     "the cis/trans relation itself (pysmiles' _annotate_ez_isomers)",
     floors={"TT.relative-dispatch": 1, "PROV.slash-marks": 4, "ORD.resolve-stereo": 3, "PROV.relative-attr": 3, "TOK.T6-slash": 1})
prop("C16", ["det_loop_state_sampler", "prov_sampler_setup", "da_self_attrs_sampler", "da_sampler", "tt_complement", "prov_growth_edge", "prov_open_bonds", "own_templates_sampler", "ord_sample_finalise", "prov_sort_key", "det_shared_state_sampler", "prov_hcount_bookkeeping_sampler"],
     "complementarity relation over 160 abstract states; growth step: one merge and one bond on every path, bond between chosen site atom and the copy of "
     "the partner's atom, order and recorded pair from the chosen descriptors, both descriptors consumed on their own atoms; templates are never mutated "
     "and their attribute values never shared into the molecule; the open-descriptor index is rebuilt from the molecule before every step and files each "
     "atom under its own descriptors, the fragment index maps a descriptor to (fragment, atom) carrying it; finalisation order",
     "connectedness / tree shape follow by induction that is not mechanised; valence completeness as C09",
     floors={"DET.loop-state": 2, "PROV.sampler-setup": 7, "DA.self-attrs": 7, "DA.sampler": 9, "TT.complement": 1, "PROV.growth-edge": 6, "PAIR.sampler-consume": 2, "PROV.open-bonds": 6, "OWN.templates-sampler": 5, "ORD.sample-finalise": 5})
prop("C17", ["tt_order_defaults", "own_mutable_defaults_sampler", "prov_sampler_setup", "da_self_attrs_sampler", "ord_complete_loops_mass", "da_sampler", "prov_stop_rule", "prov_weights", "tt_terminal_filter", "det_sampler", "ord_compute_mass", "det_shared_state_sampler"],
     "stop rule `sum < target` strict, sum starts at 0 and grows by the added fragment's mass on every iteration; weights are probabilities.get(b, 0) over the "
     "same sequence, unweighted draw only without table; terminal filter truth table; every draw goes through the sampler's own generator (random.Random(seed), created on every path of __init__) on ordered populations "
     "from the seed parameter before any draw; mass = sum over the hydrogen-completed copy",
     "statistical properties; floating point normalisation",
     floors={"TT.order-defaults": 2, "OWN.mutable-defaults": 1, "PROV.sampler-setup": 7, "DA.self-attrs": 7, "ORD.complete-loops": 1, "DA.sampler": 9, "DET.shared-state": 8, "PROV.stop-rule": 4, "PROV.weights": 3, "TT.terminal-filter": 2, "DET.sampler": 6, "ORD.compute-mass": 3})
prop("C18", ["sent_numeric_attrs", "ord_complete_loops_rdkit", "da_rdkit", "da_globals_rdkit", "key_rdkit", "norm_bead", "tab_bond_types", "prov_rdkit_attrs"],
     "no unresolved global name in rdkit.py / coordinates.py; node keys, RDKit atom indices and counters are never mixed without a map; bead position = "
     "weighted sum over the bead's own atoms / sum of those weights; bond type table; element, charge, hydrogen count and bond order are carried by both conversions",
     "everything RDKit computes (sanitisation, embedding, distances)",
     floors={"ORD.complete-loops": 7, "DA.rdkit": 5, "DA.globals": 2, "KEY.K2-rdkit": 5, "NORM.bead": 3, "TAB.bond-types": 1, "PROV.rdkit-attrs": 8})
prop("C19", ["det_shared_state_layout", "null_guard_layout", "da_layout", "key_layout", "norm_scale", "own_mutable_defaults_layout", "own_layout_input"],
     "mean bond length = sum of end-point distances over all edges / number of edges; every position multiplied by default_bond / mean; only isometries "
     "may write positions afterwards; the rescaled dict is returned",
     "finiteness, non-coincidence of bonded nodes, independence from labelling: numerical properties of networkx' optimisers",
     floors={"DET.shared-state": 5, "NULL.optional-param": 1, "DA.layout": 21, "KEY.K3-layout": 2, "OWN.layout-input": 1, "OWN.mutable-defaults": 1, "NORM.scale": 2, "ORD.scale-last": 2})
prop("C20", ["tok_rules", "ring_marker_text", "da_resolver", "exc_dangling_ring", "sib_ring_handlers", "exc_duplicate_edge", "exc_missing_fragment", "exc_annotations", "exc_handlers", "tab_dialects"],
     "each documented fault has a raise site of the documented type whose guard dominates the success exit; the open-ring table is written only by the two "
     "identical handlers; no handler between fault site and API swallows or retypes the error; numeric keys are declared float",
     "that the scanner reaches the fault wherever it is placed (C04's undecided part)",
     floors={"TOK.ring-marker-text": 1, "DA.resolver": 37, "EXC.X1-dangling-ring": 1, "SIB.S2-ring-handlers": 3, "EXC.X2-duplicate-edge": 2, "EXC.X3-missing-fragment": 3,
             "EXC.X4-annotations": 6, "EXC.handlers": 8})


# clauses added by the later rounds (DESIGN.md sections 11-13); appended to the statement of what is decided
_LATER = {
    "C01": "no read of a possibly-unbound local or never-assigned instance attribute on the resolver's paths; the hydrogen bookkeeping at bond creation (1.5 for aromatic ends, 1 otherwise, never below 0); loops that must visit every element have no early exit",
    "C02": "the per-node graph gets an edge exactly for the bonded pairs of its own atoms; atom names are set on every all-atom path on (fine graph, coarse graph); the hydrogen inheritance runs exactly for hydrogens bonded to an atom (truth table)",
    "C03": "helpers extracted from compatible() are interpreted too; options (legacy) are forwarded; no state survives between edges or calls",
    "C04": "the text of a ring marker (bare digit, % + all following digits, order symbol for the next marker only, marker ending the text) by abstract execution of the scan loop on representative tails; the set of rejection sites is the confirmed one (more: undecided); the scanner's loop-carried state is the confirmed one (more: undecided); no memoised parser; the symbol after a branch is read directly behind the brace or the multiplier number",
    "C05": "order of the copy loop (pending order updated per copy), anchor entry of a recipe is (1, attributes stored on the anchor node, 1); `is not None` for the anchor key; the scanner's loop-carried state is the confirmed one",
    "C06": "every level is read into an empty dictionary; fragments handed out by the readers are fresh objects; options are forwarded",
    "C07": "two-digit markers are written after the single-digit ones and the bare digit form only below 10; a new marker is chosen against the markers in use and released on closing; all traversal helpers start from the start node; a local edge-needs-symbol predicate equals the OpenSMILES rule",
    "C08": "which layer is written as atomistic SMILES (abstract execution for three layers); fragment symbol table equals the documented one incl. ':'; a %nn marker may end a fragment text",
    "C09": "aromatic correction before the reset of the hydrogen counts; the sampler adds hydrogens on every all-atom path and on no coarse path",
    "C10": "nothing but the membership lists of the two atoms is added up; the merge record is a fresh local per call; the provisional '!' bond is found with the resolver's own matching convention and lowers the hydrogen count of both atoms once per bond (the aromaticity correction of a shared ring atom reads it)",
    "C11": "no truth test on a bond order",
    "C12": "the three constructors and __init__ agree on the documented defaults; the fragment libraries are read by key only; names are set for every coarse node's atoms",
    "C13": "fragment symbol table equals the documented one; parse pipeline of the annotation (bind < cast < defaults); no memoised parser; the tokenizer's loop-carried state is the confirmed one",
    "C14": "the node token pattern takes everything up to the closing bracket as one token (regex language tested on sample tokens with free-form values); annotation values are never tested for truth; annotations are applied after the defaults on every path of the fragment readers; key-less values reach bind as positional arguments",
    "C15": "hydrogens written as bracket atoms stay nodes whatever their annotation values are; slash marks reach the fragment reader, are written on every multi-atom path and read back under the same name; both marks of a slash are stored unconditionally; the remapping dispatch for tuple / list / scalar values (truth table); entries are read from the relabelled graph and written back",
    "C16": "start fragment merged once into the grown graph (named or random); instance attributes assigned on every path of __init__; no early exit past the finalisation",
    "C17": "order-suffix defaulting of all three tables (abstract execution on representative descriptors); masses computed for every fragment exactly when no table is given; mass sum starts at 0; no set iteration in the helpers of the growth step; mutable defaults are not written",
    "C18": "positions are (x, y, z) of the atom's conformer position in both directions; the memo of weight totals must be keyed by the bead; conversion loops visit every atom and bond",
    "C19": "position arrays and matrices are indexed by counters, node-keyed dicts by node keys; a whole-array rescaling must reach the returned dict; nothing reachable from the layout keeps state between calls; an optional parameter is dereferenced only under its not-None guard; the layout does not modify the graph",
    "C20": "the ring scan completes a marker that ends the text; key-less annotation values reach bind as positional arguments; the tokenizer keeps ring digits in the text",
}
for _pid, _txt in _LATER.items():
    _sp = PROPERTIES[_pid]
    _sp["decided"] = _sp["decided"] + "; " + _txt
    _sp["explanation"] = EXPL + " Decided for %s: %s. Not decided: %s." % (_pid, _sp["decided"], _sp["undecided"])

# clauses added by the seventh round (DESIGN.md section 18)
_ROUND7_TEXT = {
    "C02": "no container attribute of the resolver that is filled while a level is resolved survives into the next level",
    "C04": "the end-of-branch test looks past everything the grammar allows between a node and the closing brace (digits, %, |, every order symbol; a regular expression is parsed)",
    "C05": "between two repetitions of a multiplied branch only the cursor survives: no other loop-carried variable feeds _expand_branch",
    "C06": "the constructors are read-only on the base graph; no container attribute filled per level survives into the next level",
    "C07": "a helper that returns the bond symbol or '' is judged as the edge-needs-symbol predicate it contains (truth table against the OpenSMILES rule)",
    "C08": "a helper that returns the bond symbol or '' is judged as the edge-needs-symbol predicate it contains (truth table against the OpenSMILES rule)",
    "C10": "no container attribute of the resolver that is filled while a level is resolved survives into the next level",
    "C11": "a `.` in front of one ring marker is the order of that ring bond only (zero-order ring bonds attach virtual nodes)",
    "C12": "the constructors are read-only on the base graph they are handed (effect summaries, any depth)",
    "C14": "nothing in front of the float cast rejects or rewrites a numeric spelling (abstract execution on +1, -0.25, .5, 1., 1e-1, 2.5E-1 ...)",
    "C18": "the graph is read off the molecule that was handed in (no AddHs / Kekulize / SanitizeMol derivative, first conformer whatever its id); the weights in the bead's sum are the weights in its divisor",
    "C19": "the cis/trans correction moves the connected component of the cut graph that contains the target (no fixed number of pieces, no complement of the anchor's side)",
    "C20": "a ring index that is never closed in an all-atom fragment is rejected before the lenient pysmiles read (per-index marker count)",
}
_ROUND8_TEXT = {
    "C01": "no container attribute of the resolver that is filled while a level is resolved survives into the next level",
    "C03": "no container attribute filled per level survives into the next level; no method reachable from resolve() writes an edge of the coarse graph",
    "C06": "the per-node graphs are rebuilt on every path of every level; no method reachable from resolve() writes an edge of the coarse graph",
    "C07": "the order symbol of a ring bond and its marker are written to the same string (a deferred %nn marker takes its symbol with it); ring edges are found on unordered pairs, not by membership in a directed traversal result",
    "C09": "no container attribute of the resolver that is filled while a level is resolved survives into the next level",
    "C11": "no container attribute of the resolver that is filled while a level is resolved survives into the next level",
    "C12": "no method reachable from resolve() writes an edge of the coarse graph",
    "C16": "sample() and the methods it reaches assign no attribute of the sampler (only the random generator advances between two molecules)",
    "C17": "sample() and the methods it reaches assign no attribute of the sampler (only the random generator advances between two molecules)",
    "C14": "a second table handed to create_dialect does not become further positional slots",
    "C20": "a second table handed to create_dialect does not become further positional slots (too many positional values stay an error)",
}
_ROUND9_TEXT = {
    "C01": "the fragment readers are handed the clean text returned by strip_bonding_descriptors; every path from a new bond to a return passes the hydrogen bookkeeping",
    "C03": "the matching convention asked for reaches the resolver through every constructor",
    "C06": "the fragment readers are handed the clean text returned by strip_bonding_descriptors",
    "C08": "the fragment readers are handed the clean text returned by strip_bonding_descriptors",
    "C09": "every path from a new bond to a return passes the hydrogen bookkeeping",
    "C13": "the fragment readers are handed the clean text returned by strip_bonding_descriptors",
    "C16": "every path from a new bond to a return passes the hydrogen bookkeeping",
    "C19": "odd / even is asked of the hop count of the shortest-path table, not of a node key",
}
for _pid, _txt in _ROUND9_TEXT.items():
    _ROUND8_TEXT[_pid] = (_ROUND8_TEXT[_pid] + "; " + _txt) if _pid in _ROUND8_TEXT else _txt
for _pid, _txt in _ROUND8_TEXT.items():
    _ROUND7_TEXT[_pid] = (_ROUND7_TEXT[_pid] + "; " + _txt) if _pid in _ROUND7_TEXT else _txt
for _pid, _txt in _ROUND7_TEXT.items():
    _sp = PROPERTIES[_pid]
    _sp["decided"] = _sp["decided"] + "; " + _txt
    _sp["explanation"] = EXPL + " Decided for %s: %s. Not decided: %s." % (_pid, _sp["decided"], _sp["undecided"])

# Rules of the seventh seeded round (rules/round7.py, DESIGN section 18): rule -> (properties, floor)
_ROUND7 = {
    "sel_rotate_component": (["C19"], {"SEL.rotate-component": 1}),
    "own_resolver_input": (["C12", "C06"], {"OWN.resolver-input": 2}),
    "ord_repetition_state": (["C05"], {"ORD.repetition-state": 1}),
    "prov_rdkit_source": (["C18"], {"PROV.rdkit-source": 3}),
    "det_level_state": (["C06", "C02", "C10", "C01", "C03", "C09", "C11"], {"DET.level-state": 1}),
    "det_sampler_state": (["C16", "C17"], {"DET.sampler-state": 1}),
    "own_meta_edges": (["C03", "C06", "C12"], {"OWN.meta-edges": 1}),
    "ord_resolve_annotate": (["C06"], {}),
    "prov_fragment_text": (["C06", "C13", "C08", "C01"], {"PROV.fragment-text": 2}),
    "key_parity_of_distance": (["C19"], {}),
    "prov_valence_choice": (["C09"], {}),
    "key_edge_orientation": (["C07", "C08"], {}),
    # what the writer produces has to be accepted by the reader: a rejection site of the reader that was not confirmed against the
    # grammar is a question for the round-trip properties as well (undecided there, as for C04 / C20)
    "exc_raise_inventory": (["C07", "C08"], {}),
    # the matching convention the user asked for has to arrive at the matcher through every constructor (C03: "both conventions")
    "sib_constructors": (["C03"], {}),
    "idx_branch_stop": (["C04"], {"IDX.branch-stop": 1}),
    "exc_cast_spellings": (["C14"], {"EXC.cast-spellings": 1}),
    # a `.` in front of one ring marker is the order of that ring bond only (zero-order ring bonds attach virtual nodes: C11)
    "ring_marker_text": (["C11"], {"TOK.ring-marker-text": 1}),
}
for _rn, (_pids, _fl) in _ROUND7.items():
    for _pid in _pids:
        PROPERTIES[_pid]["rules"].append(R[_rn])
        PROPERTIES[_pid]["rule_names"].append(_rn)
        PROPERTIES[_pid]["floors"].update(_fl)

# Rules for necessary conditions that today's tree does not meet (rules/gaps.py, DESIGN section 16): each is reported and the
# finding is listed as `known` in known_findings.json for every property it concerns.
_GAP_RULES = {
    "tok_fragment_multiplier": ["C13", "C06", "C02", "C03", "C05", "C14", "C16"],
    "sib_fragment_dialect": ["C14", "C13", "C02", "C20"],
    "trip_branch_close": ["C04", "C01", "C11", "C14", "C20", "C05", "C02"],
    "sib_fragment_node_names": ["C08"],
    "exc_fragment_strict": ["C20"],
    "prov_rdkit_sanitize": ["C18"],
    "ord_anchor_reset": ["C05", "C11", "C06", "C04"],      # repaired: silent on today's tree
    "idx_scan_bound": ["C05", "C06", "C04"],               # repaired: silent on today's tree
}
for _rn, _pids in _GAP_RULES.items():
    for _pid in _pids:
        PROPERTIES[_pid]["rules"].append(R[_rn])
        PROPERTIES[_pid]["rule_names"].append(_rn)
