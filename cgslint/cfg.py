"""Statement-level control-flow graph, dominators and path queries."""
import ast

from . import AnalysisError

CATCH_ALL = {"Exception", "BaseException"}


class Node:
    __slots__ = ("id", "kind", "ast", "lineno", "handlers")

    def __init__(self, id_, kind, ast_node=None):
        self.id = id_
        self.kind = kind
        self.ast = ast_node
        self.lineno = getattr(ast_node, "lineno", 0)
        self.handlers = ()

    def __repr__(self):
        return "<%d %s L%d>" % (self.id, self.kind, self.lineno)


class CFG:
    def __init__(self, func):
        self.func = func
        self.nodes = []
        self.succ = {}   # id -> list[(dst, label)]
        self.pred = {}
        self.entry = self._new("entry").id
        self.exit = self._new("exit").id
        self.raise_exit = self._new("raise").id
        self.node_of_stmt = {}   # id(ast stmt) -> node id
        self.owner = {}          # id(any ast node) -> node id of the cfg node evaluating it
        self.loops = {}          # loop node id -> set of body node ids
        self.approx = False
        self._dom = None
        self._pdom = None

    def _new(self, kind, ast_node=None):
        n = Node(len(self.nodes), kind, ast_node)
        self.nodes.append(n)
        self.succ[n.id] = []
        self.pred[n.id] = []
        return n

    def edge(self, a, b, label=None):
        if (b, label) not in self.succ[a]:
            self.succ[a].append((b, label))
            self.pred[b].append((a, label))

    # -- queries -------------------------------------------------------------
    def node_for(self, ast_node):
        nid = self.owner.get(id(ast_node))
        if nid is None:
            raise AnalysisError("no CFG node for ast node at line %s" % getattr(ast_node, "lineno", "?"))
        return nid

    def successors(self, n, edge_filter=None):
        for dst, label in self.succ[n]:
            if edge_filter is None or edge_filter(n, dst, label):
                yield dst

    def reachable_from(self, src, avoid=(), edge_filter=None, include_src=False):
        avoid = set(avoid)
        seen = set()
        work = [s for s in self.successors(src, edge_filter)] if not include_src else [src]
        while work:
            n = work.pop()
            if n in seen or n in avoid:
                continue
            seen.add(n)
            work.extend(self.successors(n, edge_filter))
        return seen

    def path_exists(self, src, dst, avoid=(), edge_filter=None):
        """Is there a path src -> ... -> dst (at least one edge) that does not
        pass through a node in `avoid` (dst itself may be in avoid: then False)."""
        return dst in self.reachable_from(src, avoid, edge_filter)

    def must_pass(self, src, targets, through, edge_filter=None):
        """Every path from src to any node of `targets` passes a node of `through`."""
        reach = self.reachable_from(src, avoid=through, edge_filter=edge_filter)
        return not (reach & set(targets))

    def _dominators(self, entry, succ_fn, edge_filter=None):
        nodes = self._reach_all(entry, succ_fn)
        dom = {n: set(nodes) for n in nodes}
        dom[entry] = {entry}
        preds = {n: [] for n in nodes}
        for n in nodes:
            for s in succ_fn(n):
                if s in preds:
                    preds[s].append(n)
        changed = True
        order = list(nodes)
        while changed:
            changed = False
            for n in order:
                if n == entry:
                    continue
                ps = [dom[p] for p in preds[n]]
                new = set.intersection(*ps) if ps else set()
                new = new | {n}
                if new != dom[n]:
                    dom[n] = new
                    changed = True
        return dom

    def _reach_all(self, entry, succ_fn):
        seen = []
        s = set()
        work = [entry]
        while work:
            n = work.pop()
            if n in s:
                continue
            s.add(n)
            seen.append(n)
            work.extend(succ_fn(n))
        return seen

    def dominators(self, edge_filter=None):
        if edge_filter is None:
            if self._dom is None:
                self._dom = self._dominators(self.entry, lambda n: [d for d, _ in self.succ[n]])
            return self._dom
        return self._dominators(self.entry, lambda n: list(self.successors(n, edge_filter)))

    def dominates(self, a, b, edge_filter=None):
        dom = self.dominators(edge_filter)
        return b in dom and a in dom[b]

    def postdominators(self, edge_filter=None):
        """Post-dominators with respect to the normal exit."""
        def preds(n):
            out = []
            for p, label in self.pred[n]:
                if edge_filter is None or edge_filter(p, n, label):
                    out.append(p)
            return out
        if edge_filter is None:
            if self._pdom is None:
                self._pdom = self._dominators(self.exit, preds)
            return self._pdom
        return self._dominators(self.exit, preds)

    def postdominates(self, a, b, edge_filter=None):
        pd = self.postdominators(edge_filter)
        return b in pd and a in pd[b]

    def stmt_nodes(self):
        return [n for n in self.nodes if n.kind not in ("entry", "exit", "raise")]

    def in_loop(self, nid):
        """innermost-first list of loop node ids containing nid"""
        out = [l for l, body in self.loops.items() if nid in body]
        out.sort(key=lambda l: len(self.loops[l]))
        return out


class _Builder:
    def __init__(self, func):
        self.cfg = CFG(func)
        self.loop_stack = []     # (head id, break-danglers list)
        self.try_stack = []      # list of lists of handler entry ids (+ catch-all flag)
        self.body_collect = []   # stack of sets collecting node ids for loops

    def new(self, kind, node, own=()):
        n = self.cfg._new(kind, node)
        self.cfg.node_of_stmt[id(node)] = n.id
        for part in own:
            if part is None:
                continue
            for sub in ast.walk(part):
                self.cfg.owner[id(sub)] = n.id
        self.cfg.owner[id(node)] = n.id
        for coll in self.body_collect:
            coll.add(n.id)
        # implicit exception edges to every enclosing handler
        for handlers, _ in self.try_stack:
            for h in handlers:
                self.cfg.edge(n.id, h, "exc")
        return n

    def connect(self, danglers, nid):
        for src, label in danglers:
            self.cfg.edge(src, nid, label)

    def block(self, stmts, danglers):
        for st in stmts:
            danglers = self.stmt(st, danglers)
        return danglers

    def stmt(self, st, danglers):
        cfg = self.cfg
        if isinstance(st, ast.If):
            n = self.new("if", st, own=[st.test])
            self.connect(danglers, n.id)
            out_t = self.block(st.body, [(n.id, "T")])
            out_f = self.block(st.orelse, [(n.id, "F")]) if st.orelse else [(n.id, "F")]
            return out_t + out_f
        if isinstance(st, (ast.For, ast.AsyncFor)):
            n = self.new("for", st, own=[st.target, st.iter])
            self.connect(danglers, n.id)
            breaks = []
            self.loop_stack.append((n.id, breaks))
            coll = set()
            self.body_collect.append(coll)
            out_body = self.block(st.body, [(n.id, "iter")])
            self.body_collect.pop()
            self.loop_stack.pop()
            cfg.loops[n.id] = coll
            self.connect(out_body, n.id)
            out = self.block(st.orelse, [(n.id, "exhaust")]) if st.orelse else [(n.id, "exhaust")]
            return out + breaks
        if isinstance(st, ast.While):
            n = self.new("while", st, own=[st.test])
            self.connect(danglers, n.id)
            breaks = []
            self.loop_stack.append((n.id, breaks))
            coll = set()
            self.body_collect.append(coll)
            out_body = self.block(st.body, [(n.id, "T")])
            self.body_collect.pop()
            self.loop_stack.pop()
            cfg.loops[n.id] = coll
            self.connect(out_body, n.id)
            infinite = isinstance(st.test, ast.Constant) and bool(st.test.value)
            out = []
            if not infinite:
                out = self.block(st.orelse, [(n.id, "F")]) if st.orelse else [(n.id, "F")]
            return out + breaks
        if isinstance(st, ast.Try) or st.__class__.__name__ == "TryStar":
            handler_nodes = []
            catch_all = False
            for h in st.handlers:
                hn = self.cfg._new("except", h)
                cfg.node_of_stmt[id(h)] = hn.id
                cfg.owner[id(h)] = hn.id
                if h.type is not None:
                    for sub in ast.walk(h.type):
                        cfg.owner[id(sub)] = hn.id
                for coll in self.body_collect:
                    coll.add(hn.id)
                # an exception raised while looking for / in a handler propagates outwards
                for handlers, _ in self.try_stack:
                    for oh in handlers:
                        cfg.edge(hn.id, oh, "exc")
                handler_nodes.append(hn.id)
                if h.type is None or (isinstance(h.type, ast.Name) and h.type.id in CATCH_ALL):
                    catch_all = True
            self.try_stack.append((handler_nodes, catch_all))
            out_body = self.block(st.body, danglers)
            self.try_stack.pop()
            out_else = self.block(st.orelse, out_body) if st.orelse else out_body
            outs = list(out_else)
            for h, hid in zip(st.handlers, handler_nodes):
                outs += self.block(h.body, [(hid, None)])
            if st.finalbody:
                cfg.approx = True
                outs = self.block(st.finalbody, outs)
            return outs
        if isinstance(st, (ast.With, ast.AsyncWith)):
            n = self.new("stmt", st, own=[i.context_expr for i in st.items] + [i.optional_vars for i in st.items])
            self.connect(danglers, n.id)
            return self.block(st.body, [(n.id, None)])
        if isinstance(st, (ast.FunctionDef, ast.AsyncFunctionDef, ast.ClassDef)):
            n = self.new("stmt", st, own=[])
            self.connect(danglers, n.id)
            return [(n.id, None)]
        if st.__class__.__name__ == "Match":
            raise AnalysisError("match statement not supported by the CFG builder (line %d)" % st.lineno)
        # simple statements
        n = self.new("stmt", st, own=[st])
        self.connect(danglers, n.id)
        if isinstance(st, ast.Return):
            cfg.edge(n.id, cfg.exit, "return")
            return []
        if isinstance(st, ast.Raise):
            caught_all = False
            for handlers, call in reversed(self.try_stack):
                if call:
                    caught_all = True
                    break
            if not caught_all:
                cfg.edge(n.id, cfg.raise_exit, "raise")
            return []
        if isinstance(st, ast.Break):
            if not self.loop_stack:
                raise AnalysisError("break outside loop")
            self.loop_stack[-1][1].append((n.id, "break"))
            return []
        if isinstance(st, ast.Continue):
            if not self.loop_stack:
                raise AnalysisError("continue outside loop")
            cfg.edge(n.id, self.loop_stack[-1][0], "continue")
            return []
        return [(n.id, None)]


def build_cfg(func):
    b = _Builder(func)
    out = b.block(func.body, [(b.cfg.entry, None)])
    b.connect(out, b.cfg.exit)
    return b.cfg


# ---------------------------------------------------------------------------
# specialisation of branch tests on boolean flags
# ---------------------------------------------------------------------------

def eval3(test, env):
    """Three-valued evaluation of a test under env: name -> bool. None = unknown."""
    if isinstance(test, ast.Name) and test.id in env:
        return env[test.id]
    if isinstance(test, ast.Attribute):
        key = ast.unparse(test)
        if key in env:
            return env[key]
    if isinstance(test, ast.Constant):
        return bool(test.value)
    if isinstance(test, ast.UnaryOp) and isinstance(test.op, ast.Not):
        v = eval3(test.operand, env)
        return None if v is None else (not v)
    if isinstance(test, ast.BoolOp):
        vals = [eval3(v, env) for v in test.values]
        if isinstance(test.op, ast.And):
            if any(v is False for v in vals):
                return False
            if all(v is True for v in vals):
                return True
            return None
        if any(v is True for v in vals):
            return True
        if all(v is False for v in vals):
            return False
        return None
    return None


def flag_filter(cfg, env):
    """Edge filter pruning branches decided by env."""
    decided = {}
    for n in cfg.nodes:
        if n.kind in ("if", "while"):
            v = eval3(n.ast.test, env)
            if v is not None:
                decided[n.id] = "T" if v else "F"

    def flt(src, dst, label):
        if src in decided and label in ("T", "F"):
            return label == decided[src]
        return True
    return flt
