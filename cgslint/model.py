"""Program model: parsed modules, symbol tables, import and call resolution,
call graph.  Source is parsed, never imported."""
import ast
import builtins
import hashlib
import os

from . import AnalysisError, PACKAGE

BUILTINS = set(dir(builtins))

# modules of the package that are shipped behaviour; tests are parsed only to
# be reported as not analysed
NOT_ANALYSED = ("tests", "test_utils.py")


class FunctionInfo:
    def __init__(self, module, node, cls=None):
        self.module = module
        self.node = node
        self.cls = cls
        self.name = node.name
        self.qualname = (cls + "." if cls else "") + node.name
        self.fq = module.name + ":" + self.qualname
        self.decorators = [ast.unparse(d) for d in node.decorator_list]
        self.is_classmethod = "classmethod" in self.decorators
        self.is_staticmethod = "staticmethod" in self.decorators
        self._cfg = None
        self._flow = None

    @property
    def params(self):
        a = self.node.args
        names = [x.arg for x in a.posonlyargs + a.args]
        if a.vararg:
            names.append(a.vararg.arg)
        names += [x.arg for x in a.kwonlyargs]
        if a.kwarg:
            names.append(a.kwarg.arg)
        return names

    @property
    def positional_params(self):
        a = self.node.args
        return [x.arg for x in a.posonlyargs + a.args]

    def defaults(self):
        """dict param name -> default ast node"""
        a = self.node.args
        pos = a.posonlyargs + a.args
        out = {}
        for p, d in zip(pos[len(pos) - len(a.defaults):], a.defaults):
            out[p.arg] = d
        for p, d in zip(a.kwonlyargs, a.kw_defaults):
            if d is not None:
                out[p.arg] = d
        return out

    @property
    def cfg(self):
        if self._cfg is None:
            from .cfg import build_cfg
            self._cfg = build_cfg(self.node)
        return self._cfg

    @property
    def flow(self):
        if self._flow is None:
            from .flow import Flow
            self._flow = Flow(self)
        return self._flow

    def where(self, node=None):
        n = node if node is not None else self.node
        return "%s:%d" % (self.module.relpath, getattr(n, "lineno", 0))

    def __repr__(self):
        return "<fn %s>" % self.fq


class Module:
    def __init__(self, repo, name, path):
        self.repo = repo
        self.name = name
        self.path = path
        self.relpath = os.path.relpath(path, repo.root)
        with open(path, "rb") as fh:
            raw = fh.read()
        self.sha256 = hashlib.sha256(raw).hexdigest()
        self.src = raw.decode("utf-8")
        self.nlines = self.src.count("\n") + 1
        try:
            self.tree = ast.parse(self.src, filename=path)
        except SyntaxError as err:
            raise AnalysisError("cannot parse %s: %s" % (self.relpath, err))
        # helpers that are not part of the confirmed inventory are analysed in place of their calls
        from .inline import inline_module, import_foreign_helpers
        try:
            self.tree, foreign = import_foreign_helpers(self.tree, name, repo.raw_trees)
            self.tree, self.inline_report = inline_module(self.tree, name)
            self.inline_report = foreign + self.inline_report
        except RecursionError:
            self.inline_report = ["inlining abandoned: recursion limit"]
        self.functions = {}
        self.classes = {}
        self.imports = {}      # local name -> ('repo', module, name) | ('ext', dotted)
        self.constants = {}    # module level name -> ast value node
        self.partials = {}     # name -> (target name, {kw: ast})
        self._index()

    def _index(self):
        for stmt in self.tree.body:
            if isinstance(stmt, (ast.FunctionDef, ast.AsyncFunctionDef)):
                self.functions[stmt.name] = FunctionInfo(self, stmt)
            elif isinstance(stmt, ast.ClassDef):
                self.classes[stmt.name] = stmt
                for sub in stmt.body:
                    if isinstance(sub, (ast.FunctionDef, ast.AsyncFunctionDef)):
                        fi = FunctionInfo(self, sub, cls=stmt.name)
                        self.functions[fi.qualname] = fi
            elif isinstance(stmt, ast.Import):
                for al in stmt.names:
                    local = al.asname or al.name.split(".")[0]
                    dotted = al.name if al.asname else al.name.split(".")[0]
                    self.imports[local] = ("ext", dotted)
            elif isinstance(stmt, ast.ImportFrom):
                for al in stmt.names:
                    local = al.asname or al.name
                    if stmt.level >= 1:
                        self.imports[local] = ("repo", stmt.module, al.name)
                    elif stmt.module and stmt.module.split(".")[0] == PACKAGE:
                        self.imports[local] = ("repo", stmt.module.split(".", 1)[1] if "." in stmt.module else None, al.name)
                    else:
                        self.imports[local] = ("ext", (stmt.module or "") + "." + al.name)
            elif isinstance(stmt, ast.Assign) and len(stmt.targets) == 1 and isinstance(stmt.targets[0], ast.Name):
                name = stmt.targets[0].id
                self.constants[name] = stmt.value
                v = stmt.value
                if isinstance(v, ast.Call) and isinstance(v.func, ast.Name) and \
                        self.imports.get(v.func.id) == ("ext", "functools.partial") and v.args and \
                        isinstance(v.args[0], ast.Name):
                    self.partials[name] = (v.args[0].id, {k.arg: k.value for k in v.keywords if k.arg})
                elif isinstance(v, ast.Call) and isinstance(v.func, ast.Name) and v.func.id in self.functions and not self.functions[v.func.id].cls:
                    # NAME = factory(a, b) with `def factory(p, q): return partial(TARGET, kw=p, ...)`: the partial it returns
                    fnode = self.functions[v.func.id].node
                    body = [b for b in fnode.body if not (isinstance(b, ast.Expr) and isinstance(b.value, ast.Constant))]
                    if len(body) == 1 and isinstance(body[0], ast.Return) and isinstance(body[0].value, ast.Call):
                        pc = body[0].value
                        if isinstance(pc.func, ast.Name) and self.imports.get(pc.func.id) == ("ext", "functools.partial") and pc.args and \
                                isinstance(pc.args[0], ast.Name) and not any(isinstance(a, ast.Starred) for a in v.args):
                            params = [a.arg for a in fnode.args.args]
                            given = dict(zip(params, v.args))
                            given.update({k.arg: k.value for k in v.keywords if k.arg})
                            bound = {}
                            okb = True
                            for k in pc.keywords:
                                if k.arg is None:
                                    okb = False
                                elif isinstance(k.value, ast.Name) and k.value.id in params:
                                    if k.value.id in given:
                                        bound[k.arg] = given[k.value.id]
                                else:
                                    bound[k.arg] = k.value
                            if okb:
                                self.partials[name] = (pc.args[0].id, bound)

    def function(self, qualname):
        if qualname not in self.functions:
            raise AnalysisError("anchor vanished: function %s not found in %s" % (qualname, self.relpath))
        return self.functions[qualname]

    def constant(self, name):
        if name not in self.constants:
            raise AnalysisError("anchor vanished: module constant %s not found in %s" % (name, self.relpath))
        return self.constants[name]


class CallTarget:
    """kind: 'repo' (fi), 'ext' (dotted), 'builtin' (name), 'method' (name, receiver ast),
    'class' (class name in module -> constructor), 'dynamic'"""

    def __init__(self, kind, name, fi=None, receiver=None, bound=None):
        self.kind = kind
        self.name = name
        self.fi = fi
        self.receiver = receiver
        self.bound = bound or {}

    def __repr__(self):
        return "<%s %s>" % (self.kind, self.name)


class Repo:
    def __init__(self, root):
        self.root = root
        self.pkgdir = os.path.join(root, PACKAGE)
        if not os.path.isdir(self.pkgdir):
            raise AnalysisError("package directory %s not found" % self.pkgdir)
        self.modules = {}
        self.not_analysed = []
        # the modules as written, for helpers that moved from one module to another (inline.import_foreign_helpers)
        self.raw_trees = {}
        for fn in sorted(os.listdir(self.pkgdir)):
            if fn.endswith(".py") and fn not in NOT_ANALYSED:
                try:
                    with open(os.path.join(self.pkgdir, fn), "rb") as fh:
                        self.raw_trees[fn[:-3]] = ast.parse(fh.read().decode("utf-8"))
                except (SyntaxError, UnicodeDecodeError):
                    pass
        for fn in sorted(os.listdir(self.pkgdir)):
            p = os.path.join(self.pkgdir, fn)
            if fn in NOT_ANALYSED:
                if os.path.isdir(p):
                    for sub in sorted(os.listdir(p)):
                        if sub.endswith(".py"):
                            self.not_analysed.append(os.path.join(PACKAGE, fn, sub))
                else:
                    self.not_analysed.append(os.path.join(PACKAGE, fn))
                continue
            if fn.endswith(".py"):
                name = fn[:-3]
                self.modules[name] = Module(self, name, p)
        self._callgraph = None

    # -- lookup -----------------------------------------------------------
    def module(self, name):
        if name not in self.modules:
            raise AnalysisError("anchor vanished: module %s.py not found" % name)
        return self.modules[name]

    def function(self, fq):
        mod, qual = fq.split(":")
        return self.module(mod).function(qual)

    def all_functions(self, modules=None):
        for mname, m in self.modules.items():
            if modules is not None and mname not in modules:
                continue
            for fi in m.functions.values():
                yield fi

    # -- call resolution ----------------------------------------------------
    def resolve_name(self, module, name):
        """Resolve a bare global name used in `module`."""
        if name in module.partials:
            tgt, bound = module.partials[name]
            t = self.resolve_name(module, tgt)
            if t is not None and t.kind == "repo":
                return CallTarget("repo", t.name, fi=t.fi, bound=bound)
            return t
        if name in module.functions:
            return CallTarget("repo", module.functions[name].fq, fi=module.functions[name])
        if name in module.classes:
            init = module.functions.get(name + ".__init__")
            return CallTarget("class", module.name + ":" + name, fi=init)
        if name in module.imports:
            imp = module.imports[name]
            if imp[0] == "ext":
                return CallTarget("ext", imp[1])
            _, modname, orig = imp
            if modname is None:
                # from . import x  /  from cgsmiles import x
                if orig in self.modules:
                    return CallTarget("repomodule", orig)
                return None
            modname = modname.split(".")[-1]
            if modname in self.modules:
                return self.resolve_name(self.modules[modname], orig)
            return None
        if name in module.constants:
            return CallTarget("constant", module.name + ":" + name)
        if name in BUILTINS:
            return CallTarget("builtin", name)
        return None

    def resolve_call(self, fi, call):
        """Resolve the callee of ast.Call `call` inside function `fi`."""
        module = fi.module
        f = call.func
        if isinstance(f, ast.Name):
            local = fi.flow.is_local(f.id) if fi is not None else False
            if local and f.id in fi.flow.local_imports:
                return CallTarget("ext", fi.flow.local_imports[f.id])
            if local:
                if fi.cls and fi.is_classmethod and fi.positional_params and f.id == fi.positional_params[0]:
                    init = module.functions.get(fi.cls + ".__init__")
                    return CallTarget("class", module.name + ":" + fi.cls, fi=init)
                return CallTarget("dynamic", f.id)
            t = self.resolve_name(module, f.id)
            if t is None:
                return CallTarget("unresolved", f.id)
            return t
        if isinstance(f, ast.Attribute):
            dotted = dotted_name(f)
            if dotted:
                head = dotted.split(".")[0]
                is_local = fi.flow.is_local(head) if fi is not None else False
                if is_local and head in fi.flow.local_imports:
                    return CallTarget("ext", fi.flow.local_imports[head] + dotted[len(head):])
                if not is_local and head in module.imports and module.imports[head][0] == "ext":
                    base = module.imports[head][1]
                    return CallTarget("ext", base + dotted[len(head):])
                if head in ("self", "cls") and fi is not None and fi.cls and dotted.count(".") == 1:
                    q = fi.cls + "." + f.attr
                    if q in module.functions:
                        return CallTarget("repo", module.functions[q].fq, fi=module.functions[q])
            return CallTarget("method", f.attr, receiver=f.value)
        return CallTarget("dynamic", ast.unparse(f))

    # -- call graph -----------------------------------------------------------
    @property
    def callgraph(self):
        if self._callgraph is None:
            cg = {}
            for fi in self.all_functions():
                outs = []
                for node in ast.walk(fi.node):
                    if isinstance(node, ast.Call):
                        t = self.resolve_call(fi, node)
                        if t.kind in ("repo", "class") and t.fi is not None:
                            outs.append((t.fi.fq, node))
                cg[fi.fq] = outs
            self._callgraph = cg
        return self._callgraph

    def reachable(self, roots):
        seen = set()
        work = list(roots)
        while work:
            fq = work.pop()
            if fq in seen:
                continue
            seen.add(fq)
            for callee, _ in self.callgraph.get(fq, ()):
                work.append(callee)
        return seen

    def call_inventory(self):
        """Counts of resolved call kinds over all analysed functions (evidence)."""
        counts = {}
        for fi in self.all_functions():
            for node in ast.walk(fi.node):
                if isinstance(node, ast.Call):
                    t = self.resolve_call(fi, node)
                    counts[t.kind] = counts.get(t.kind, 0) + 1
        return counts

    def inventory(self):
        return {
            "files": [{"file": m.relpath, "sha256": m.sha256, "lines": m.nlines,
                       "functions": len(m.functions)} for m in self.modules.values()],
            "not_analysed": self.not_analysed,
        }


def dotted_name(node):
    parts = []
    while isinstance(node, ast.Attribute):
        parts.append(node.attr)
        node = node.value
    if isinstance(node, ast.Name):
        parts.append(node.id)
        return ".".join(reversed(parts))
    return None


def fold_const(node, module=None):
    """Constant-fold literal ast nodes to python values; raises ValueError when
    the node is not a literal."""
    if isinstance(node, ast.Constant):
        return node.value
    if isinstance(node, ast.Tuple):
        return tuple(fold_const(e, module) for e in node.elts)
    if isinstance(node, ast.List):
        return [fold_const(e, module) for e in node.elts]
    if isinstance(node, ast.Set):
        return set(fold_const(e, module) for e in node.elts)
    if isinstance(node, ast.Dict):
        return {fold_const(k, module): fold_const(v, module) for k, v in zip(node.keys, node.values)}
    if isinstance(node, ast.UnaryOp) and isinstance(node.op, ast.USub):
        return -fold_const(node.operand, module)
    if isinstance(node, ast.UnaryOp) and isinstance(node.op, ast.UAdd):
        return +fold_const(node.operand, module)
    if isinstance(node, ast.BinOp) and isinstance(node.op, ast.Add):
        return fold_const(node.left, module) + fold_const(node.right, module)
    if isinstance(node, ast.BinOp) and isinstance(node.op, ast.Mult):
        return fold_const(node.left, module) * fold_const(node.right, module)
    if isinstance(node, ast.Call) and isinstance(node.func, ast.Name) and node.func.id in ("list", "tuple", "dict", "set", "frozenset") \
            and len(node.args) <= 1 and not node.keywords:
        inner = fold_const(node.args[0], module) if node.args else ()
        return {"list": list, "tuple": tuple, "dict": dict, "set": set, "frozenset": frozenset}[node.func.id](inner)
    if isinstance(node, ast.Name) and module is not None and node.id in module.constants:
        return fold_const(module.constants[node.id], module)
    if isinstance(node, ast.Name) and node.id in ("str", "float", "int", "bool"):
        return {"str": str, "float": float, "int": int, "bool": bool}[node.id]
    raise ValueError("not a literal: %s" % ast.dump(node)[:80])
