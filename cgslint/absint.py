"""Abstract evaluator for small pure predicate functions (truth-table extraction).

A bonding descriptor is abstracted to three components (kind character, label,
order digit).  In one abstract *state* the kind of every descriptor is a
concrete character, while labels and orders are only known up to equality with
the other descriptors' labels / orders (an equivalence-class id per side).
The evaluator interprets the function's syntax tree over that domain; a
construct outside the supported language raises AnalysisError (never a verdict).
"""
import ast

from . import AnalysisError


class Unsupported(AnalysisError):
    pass


class AStr:
    """Abstract string = concatenation of parts.  A part is a python str
    (concrete) or a tuple ('label'|'order', class_id)."""

    def __init__(self, parts):
        norm = []
        for p in parts:
            if isinstance(p, str):
                if p == "":
                    continue
                if norm and isinstance(norm[-1], str):
                    norm[-1] += p
                else:
                    norm.append(p)
            else:
                norm.append(p)
        self.parts = tuple(norm)

    def __eq__(self, other):
        return isinstance(other, AStr) and self.parts == other.parts

    def __hash__(self):
        return hash(self.parts)

    def __repr__(self):
        return "AStr(%r)" % (self.parts,)

    def units(self):
        """Expand to a list of units: single concrete characters, ('label', c), ('order', c).
        A label is a string of unknown length; an order is exactly one character."""
        out = []
        for p in self.parts:
            if isinstance(p, str):
                out.extend(list(p))
            else:
                out.append(p)
        return out

    def concrete(self):
        if all(isinstance(p, str) for p in self.parts):
            return "".join(self.parts)
        return None


def descriptor(kind, label_class, order_class):
    return AStr([kind, ("label", label_class), ("order", order_class)])


def _streq(a, b):
    """Equality of two abstract strings; labels are nonempty-or-empty strings of
    unknown content that never contain / equal concrete text, and two labels are
    equal iff same class; orders are single characters, equal iff same class."""
    ua, ub = a.units(), b.units()
    # labels of a class may be the empty string: class ids < 0 denote 'empty label'
    ua = [u for u in ua if not (isinstance(u, tuple) and u[0] == "label" and u[1] < 0)]
    ub = [u for u in ub if not (isinstance(u, tuple) and u[0] == "label" and u[1] < 0)]
    la = [i for i, u in enumerate(ua) if isinstance(u, tuple) and u[0] == "label"]
    lb = [i for i, u in enumerate(ub) if isinstance(u, tuple) and u[0] == "label"]
    ua = [u for u in ua]
    ub = [u for u in ub]
    if la != lb or len(ua) != len(ub):
        # a (nonempty) label has unknown length >= 1; every other unit is one character
        if not la and not lb:
            return False if len(ua) != len(ub) else _streq_units(ua, ub)
        if not la and len(ua) < len(ub):
            return False
        if not lb and len(ub) < len(ua):
            return False
        raise Unsupported("comparison of strings whose label positions differ")
    return _streq_units(ua, ub)


def _streq_units(ua, ub):
    for x, y in zip(ua, ub):
        if isinstance(x, str) and isinstance(y, str):
            if x != y:
                return False
        elif isinstance(x, tuple) and isinstance(y, tuple):
            if x[0] != y[0]:
                raise Unsupported("comparison of a label with an order digit")
            if x[0] == "labelchar" and x[1] != y[1]:
                raise Unsupported("comparison of the first characters of two different labels")
            if x[1] != y[1]:
                return False
        else:
            t = x if isinstance(x, tuple) else y
            cz = y if isinstance(x, tuple) else x
            # labels are alphanumeric and orders are digits: neither equals a punctuation character
            if not cz.isalnum():
                return False
            if t[0] == "order":
                raise Unsupported("comparison of an order digit with a literal character")
            raise Unsupported("comparison of a label with a literal")
    return True


class Raised(Exception):
    def __init__(self, exc_name):
        self.exc_name = exc_name


class _Return(Exception):
    def __init__(self, value):
        self.value = value


class _Break(Exception):
    pass


class _Continue(Exception):
    pass


class Missing:
    def __repr__(self):
        return "<missing>"


MISSING = Missing()


class Deleted:
    def __repr__(self):
        return "<deleted>"


DELETED = Deleted()


class ADict:
    """Abstract attribute dict: key -> python value or MISSING."""

    def __init__(self, d):
        self.d = dict(d)


class ASet(tuple):
    """a set of abstract values (which need not be hashable): used for membership tests"""


class Evaluator:
    def __init__(self, call_hook=None, max_steps=20000, load_hook=None, store_hook=None):
        self.call_hook = call_hook
        self.load_hook = load_hook      # (evaluator, expr ast, env) -> (handled, value) for Attribute/Subscript/Name loads
        self.store_hook = store_hook    # (evaluator, target ast, value, env) -> handled
        self.steps = 0
        self.max_steps = max_steps

    # -- statements -----------------------------------------------------------
    def run_function(self, func, args):
        env = dict(args)
        try:
            self.block(func.body, env)
        except _Return as r:
            return ("return", r.value)
        except Raised as r:
            return ("raise", r.exc_name)
        return ("return", None)

    def block(self, stmts, env):
        for st in stmts:
            self.stmt(st, env)

    def stmt(self, st, env):
        self.steps += 1
        if self.steps > self.max_steps:
            raise Unsupported("evaluation does not terminate")
        if isinstance(st, ast.Expr):
            if isinstance(st.value, ast.Constant):
                return
            self.eval(st.value, env)
            return
        if isinstance(st, ast.Return):
            raise _Return(self.eval(st.value, env) if st.value is not None else None)
        if isinstance(st, ast.Raise):
            name = "Exception"
            e = st.exc
            if isinstance(e, ast.Call):
                e = e.func
            if isinstance(e, ast.Name):
                name = e.id
            elif isinstance(e, ast.Attribute):
                name = e.attr
            raise Raised(name)
        if isinstance(st, ast.If):
            if self.truth(self.eval(st.test, env)):
                self.block(st.body, env)
            else:
                self.block(st.orelse, env)
            return
        if isinstance(st, ast.Assign):
            v = self.eval(st.value, env)
            for t in st.targets:
                self.assign(t, v, env)
            return
        if isinstance(st, ast.AugAssign):
            cur = self.eval(_load(st.target), env)
            v = self.binop(st.op, cur, self.eval(st.value, env))
            self.assign(st.target, v, env)
            return
        if isinstance(st, ast.For):
            it = self.eval(st.iter, env)
            if isinstance(it, dict):
                it = list(it)       # iterating a dict yields its keys (a snapshot: resizing while iterating is an error anyway)
            if not isinstance(it, (list, tuple)):
                raise Unsupported("iteration over a non-list value at line %d" % st.lineno)
            broke = False
            i = 0
            # python iterates a list by index over the *live* object: removing while iterating skips elements
            while i < len(it):
                item = it[i]
                i += 1
                self.assign(st.target, item, env)
                try:
                    self.block(st.body, env)
                except _Break:
                    broke = True
                    break
                except _Continue:
                    continue
            if not broke:
                self.block(st.orelse, env)
            return
        if isinstance(st, ast.While):
            broke = False
            while self.truth(self.eval(st.test, env)):
                self.steps += 1
                if self.steps > self.max_steps:
                    raise Unsupported("evaluation does not terminate")
                try:
                    self.block(st.body, env)
                except _Break:
                    broke = True
                    break
                except _Continue:
                    continue
            if not broke:
                self.block(st.orelse, env)
            return
        if isinstance(st, ast.Pass):
            return
        if isinstance(st, ast.Delete):
            for t in st.targets:
                if self.store_hook is not None and self.store_hook(self, t, DELETED, env):
                    continue
                if isinstance(t, ast.Subscript):
                    cont = self.eval(t.value, env)
                    key = self.eval(t.slice, env)
                    if isinstance(cont, dict):
                        for kk in list(cont):
                            if self.eq(kk, key):
                                del cont[kk]
                                break
                        else:
                            raise Raised("KeyError")
                        continue
                raise Unsupported("del %s" % ast.unparse(t))
            return
        if isinstance(st, ast.Break):
            raise _Break()
        if isinstance(st, ast.Continue):
            raise _Continue()
        if isinstance(st, ast.Assert):
            return
        if isinstance(st, ast.Try) and not getattr(st, "finalbody", None):
            try:
                self.block(st.body, env)
            except Raised as r:
                for h in st.handlers:
                    names = set()
                    if h.type is None:
                        names = {r.exc_name}
                    else:
                        for t in (h.type.elts if isinstance(h.type, ast.Tuple) else [h.type]):
                            names.add(t.id if isinstance(t, ast.Name) else getattr(t, "attr", "?"))
                    if r.exc_name in names or names & {"Exception", "BaseException"}:
                        if h.name:
                            env[h.name] = r.exc_name
                        self.block(h.body, env)
                        return
                raise
            else:
                self.block(st.orelse, env)
            return
        raise Unsupported("statement %s at line %d" % (type(st).__name__, st.lineno))

    def assign(self, target, value, env):
        if self.store_hook is not None and not isinstance(target, (ast.Name, ast.Tuple, ast.List)):
            if self.store_hook(self, target, value, env):
                return
        if isinstance(target, ast.Name):
            env[target.id] = value
        elif isinstance(target, ast.Subscript):
            cont = self.eval(target.value, env)
            key = self.eval(target.slice, env)
            if isinstance(cont, dict):
                for kk in list(cont):
                    if self.eq(kk, key):
                        cont[kk] = value
                        return
                if isinstance(key, AStr):
                    key = key.concrete()
                    if key is None:
                        raise Unsupported("abstract string as dict key")
                cont[key] = value
            elif isinstance(cont, list) and isinstance(key, int):
                cont[key] = value
            else:
                raise Unsupported("subscript store on %r" % (cont,))
        elif isinstance(target, (ast.Tuple, ast.List)) and any(isinstance(t, ast.Starred) for t in target.elts):
            stars = [i for i, t in enumerate(target.elts) if isinstance(t, ast.Starred)]
            if len(stars) != 1 or not isinstance(value, (tuple, list)):
                raise Unsupported("starred unpacking at line %d" % target.lineno)
            i = stars[0]
            n_after = len(target.elts) - i - 1
            if len(value) < len(target.elts) - 1:
                raise Raised("ValueError")
            value = list(value)
            for t, v in zip(target.elts[:i], value[:i]):
                self.assign(t, v, env)
            self.assign(target.elts[i].value, value[i:len(value) - n_after], env)
            for t, v in zip(target.elts[i + 1:], value[len(value) - n_after:]):
                self.assign(t, v, env)
        elif isinstance(target, (ast.Tuple, ast.List)):
            if not isinstance(value, (tuple, list)) or len(value) != len(target.elts):
                raise Unsupported("unpacking at line %d" % target.lineno)
            for t, v in zip(target.elts, value):
                self.assign(t, v, env)
        else:
            raise Unsupported("assignment target %s" % type(target).__name__)

    # -- expressions -----------------------------------------------------------
    def truth(self, v):
        if isinstance(v, AStr):
            c = v.concrete()
            if c is not None:
                return bool(c)
            return True   # contains an order digit: nonempty
        if isinstance(v, (bool, int, float, str, list, tuple, dict, type(None))):
            return bool(v)
        if v is MISSING:
            raise Unsupported("truth value of a missing entry")
        raise Unsupported("truth value of %r" % (v,))

    def _as_set(self, items):
        out = []
        for x in items:
            if not any(self.eq(x, y) for y in out):
                out.append(x)
        return ASet(out)

    def eval(self, e, env):
        self.steps += 1
        if self.steps > self.max_steps:
            raise Unsupported("evaluation does not terminate")
        if isinstance(e, ast.Constant):
            return e.value
        if self.load_hook is not None and isinstance(e, (ast.Attribute, ast.Subscript, ast.Name)):
            handled, v = self.load_hook(self, e, env)
            if handled:
                return v
        if isinstance(e, ast.Name):
            if e.id in env:
                return env[e.id]
            if e.id in ("True", "False", "None"):
                return {"True": True, "False": False, "None": None}[e.id]
            raise Unsupported("free name %s" % e.id)
        if isinstance(e, ast.Tuple):
            return tuple(self.eval(x, env) for x in e.elts)
        if isinstance(e, ast.List):
            return [self.eval(x, env) for x in e.elts]
        if isinstance(e, ast.Set):
            return self._as_set([self.eval(x, env) for x in e.elts])
        if isinstance(e, ast.Dict) and all(k is not None for k in e.keys):
            out = {}
            for k, v in zip(e.keys, e.values):
                kk = self.eval(k, env)
                if isinstance(kk, AStr):
                    kk = kk.concrete()
                    if kk is None:
                        raise Unsupported("abstract string as dict key")
                out[kk] = self.eval(v, env)
            return out
        if isinstance(e, ast.BoolOp):
            if isinstance(e.op, ast.And):
                v = True
                for x in e.values:
                    v = self.eval(x, env)
                    if not self.truth(v):
                        return v
                return v
            v = False
            for x in e.values:
                v = self.eval(x, env)
                if self.truth(v):
                    return v
            return v
        if isinstance(e, ast.UnaryOp) and isinstance(e.op, ast.Not):
            return not self.truth(self.eval(e.operand, env))
        if isinstance(e, ast.UnaryOp) and isinstance(e.op, (ast.USub, ast.UAdd)):
            v = self.eval(e.operand, env)
            if isinstance(v, (int, float)) and not isinstance(v, bool):
                return -v if isinstance(e.op, ast.USub) else v
            raise Unsupported("unary minus on %r" % (v,))
        if isinstance(e, ast.Compare):
            left = self.eval(e.left, env)
            for op, comp in zip(e.ops, e.comparators):
                right = self.eval(comp, env)
                if not self.compare(op, left, right):
                    return False
                left = right
            return True
        if isinstance(e, ast.Subscript):
            return self.subscript(self.eval(e.value, env), e.slice, env)
        if isinstance(e, ast.BinOp):
            return self.binop(e.op, self.eval(e.left, env), self.eval(e.right, env))
        if isinstance(e, ast.IfExp):
            return self.eval(e.body, env) if self.truth(self.eval(e.test, env)) else self.eval(e.orelse, env)
        if isinstance(e, ast.Call):
            return self.call(e, env)
        if isinstance(e, ast.JoinedStr):
            return "<fstring>"
        if isinstance(e, ast.DictComp) and len(e.generators) == 1 and not e.generators[0].is_async:
            g = e.generators[0]
            it = self.eval(g.iter, env)
            if it is None or isinstance(it, (int, float, bool)):
                raise Raised("TypeError")
            if isinstance(it, dict):
                it = list(it)
            if not isinstance(it, (list, tuple)):
                raise Unsupported("dict comprehension over non-list")
            out = {}
            for item in it:
                env2 = dict(env)
                self.assign(g.target, item, env2)
                if all(self.truth(self.eval(c, env2)) for c in g.ifs):
                    k = self.eval(e.key, env2)
                    v = self.eval(e.value, env2)
                    if isinstance(k, AStr):
                        kc = k.concrete()
                        if kc is None:
                            raise Unsupported("abstract string as dict key")
                        k = kc
                    for kk in list(out):
                        if self.eq(kk, k):
                            out[kk] = v
                            break
                    else:
                        out[k] = v
            return out
        if isinstance(e, (ast.ListComp, ast.GeneratorExp)) and len(e.generators) == 1 and not e.generators[0].is_async:
            g = e.generators[0]
            it = self.eval(g.iter, env)
            if it is None or isinstance(it, (int, float, bool)):
                raise Raised("TypeError")
            if isinstance(it, (str, dict)):
                it = list(it)
            if not isinstance(it, (list, tuple)):
                raise Unsupported("comprehension over non-list")
            out = []
            for item in it:
                env2 = dict(env)
                self.assign(g.target, item, env2)
                if all(self.truth(self.eval(c, env2)) for c in g.ifs):
                    out.append(self.eval(e.elt, env2))
            return out
        raise Unsupported("expression %s at line %d" % (type(e).__name__, getattr(e, "lineno", 0)))

    def as_astr(self, v):
        if isinstance(v, AStr):
            return v
        if isinstance(v, str):
            return AStr([v])
        raise Unsupported("not a string: %r" % (v,))

    def eq(self, a, b):
        if isinstance(a, AStr) or isinstance(b, AStr):
            if not isinstance(a, (AStr, str)) or not isinstance(b, (AStr, str)):
                return False
            return _streq(self.as_astr(a), self.as_astr(b))
        if isinstance(a, ASet) or isinstance(b, ASet):
            if not (isinstance(a, ASet) and isinstance(b, ASet)) or len(a) != len(b):
                return False
            return all(any(self.eq(x, y) for y in b) for x in a)
        if isinstance(a, (tuple, list)) and isinstance(b, (tuple, list)):
            if type(a) != type(b) or len(a) != len(b):
                return False
            return all(self.eq(x, y) for x, y in zip(a, b))
        if a is MISSING or b is MISSING:
            raise Unsupported("comparison with a missing entry")
        return a == b

    def compare(self, op, a, b):
        if isinstance(op, ast.Eq):
            return self.eq(a, b)
        if isinstance(op, ast.NotEq):
            return not self.eq(a, b)
        if isinstance(op, (ast.In, ast.NotIn)):
            if isinstance(b, (list, tuple, set, frozenset)):
                r = any(self.eq(a, x) for x in b)
            elif isinstance(b, (str, AStr)):
                bs = self.as_astr(b)
                as_ = self.as_astr(a)
                bc, ac = bs.concrete(), as_.concrete()
                if bc is None or ac is None:
                    raise Unsupported("substring test on abstract strings")
                r = ac in bc
            elif isinstance(b, dict):
                r = any(self.eq(a, x) for x in b)
            else:
                raise Unsupported("membership in %r" % (b,))
            return r if isinstance(op, ast.In) else not r
        if isinstance(op, ast.Is):
            return a is b
        if isinstance(op, ast.IsNot):
            return a is not b
        if isinstance(op, (ast.Lt, ast.LtE, ast.Gt, ast.GtE)) and \
                all(isinstance(x, (int, float)) and not isinstance(x, bool) for x in (a, b)):
            return {ast.Lt: a < b, ast.LtE: a <= b, ast.Gt: a > b, ast.GtE: a >= b}[type(op)]
        raise Unsupported("comparison operator %s" % type(op).__name__)

    def subscript(self, v, sl, env):
        if isinstance(v, (tuple, list)):
            if isinstance(sl, ast.Slice):
                lo = self.eval(sl.lower, env) if sl.lower is not None else None
                hi = self.eval(sl.upper, env) if sl.upper is not None else None
                return v[lo:hi]
            i = self.eval(sl, env)
            if not isinstance(i, int):
                raise Unsupported("non-constant index")
            try:
                return v[i]
            except IndexError:
                raise Raised("IndexError")
        if isinstance(v, dict):
            k = self.eval(sl, env)
            for kk, vv in v.items():
                if self.eq(kk, k):
                    return vv
            raise Raised("KeyError")
        if isinstance(v, str):
            # concrete text: python semantics
            if isinstance(sl, ast.Slice):
                if sl.step is not None:
                    raise Unsupported("slice step")
                lo = self.eval(sl.lower, env) if sl.lower is not None else None
                hi = self.eval(sl.upper, env) if sl.upper is not None else None
                if not all(x is None or (isinstance(x, int) and not isinstance(x, bool)) for x in (lo, hi)):
                    raise Unsupported("non-constant slice bound")
                return v[lo:hi]
            i = self.eval(sl, env)
            if not isinstance(i, int) or isinstance(i, bool):
                raise Unsupported("non-constant index")
            try:
                return v[i]
            except IndexError:
                raise Raised("IndexError")
        if isinstance(v, (str, AStr)):
            s = self.as_astr(v)
            units = s.units()
            # a label is a single unit of unknown length: only positions that do not
            # depend on its length can be addressed (from the left before it, from the
            # right after it)
            lab = [i for i, u in enumerate(units) if isinstance(u, tuple) and u[0] == "label"]
            first_lab = lab[0] if lab else len(units)
            last_lab = lab[-1] if lab else -1

            def pos_left(i):
                if i > first_lab:
                    raise Unsupported("index past a label of unknown length")
                return i

            def pos_right(i):  # i negative
                j = len(units) + i
                if j < last_lab:
                    raise Unsupported("index before a label of unknown length")
                return j
            if isinstance(sl, ast.Slice):
                if sl.step is not None:
                    raise Unsupported("slice step")
                lo = self.eval(sl.lower, env) if sl.lower is not None else 0
                hi = self.eval(sl.upper, env) if sl.upper is not None else None
                a = pos_left(lo) if lo >= 0 else pos_right(lo)
                if hi is None:
                    b = len(units)
                else:
                    b = pos_left(hi) if hi >= 0 else pos_right(hi)
                return AStr(units[a:b])
            i = self.eval(sl, env)
            if not isinstance(i, int):
                raise Unsupported("non-constant index")
            if i >= 0:
                if lab and i == first_lab:
                    # first character of a (nonempty) label: an alphanumeric character of unknown value
                    return AStr([("labelchar", units[i][1])])
                if i >= first_lab and lab:
                    raise Unsupported("index into / past a label of unknown length")
                j = i
            else:
                j = pos_right(i)
                if lab and j <= last_lab:
                    raise Unsupported("index into a label of unknown length")
            if j >= len(units) or j < 0:
                raise Raised("IndexError")
            return AStr([units[j]])
        raise Unsupported("subscript of %r" % (v,))

    def binop(self, op, a, b):
        if isinstance(op, ast.Add):
            if isinstance(a, str) and isinstance(b, str):
                return a + b
            if isinstance(a, (str, AStr)) and isinstance(b, (str, AStr)):
                return AStr(self.as_astr(a).units() + self.as_astr(b).units())
            if isinstance(a, list) and isinstance(b, list):
                return a + b
            if isinstance(a, tuple) and isinstance(b, tuple):
                return a + b
            if isinstance(a, (int, float)) and isinstance(b, (int, float)):
                return a + b
        if isinstance(op, ast.Sub) and isinstance(a, (int, float)) and isinstance(b, (int, float)):
            return a - b
        num = (int, float)
        if isinstance(op, (ast.Add, ast.Sub)) and ((isinstance(a, str) and isinstance(b, num)) or (isinstance(a, num) and isinstance(b, str))) \
                and not isinstance(a, bool) and not isinstance(b, bool):
            raise Raised("TypeError")
        raise Unsupported("binary operator %s on %r, %r" % (type(op).__name__, a, b))

    def call(self, e, env):
        if self.call_hook is not None:
            handled, v = self.call_hook(self, e, env)
            if handled:
                return v
        f = e.func
        if isinstance(f, ast.Attribute):
            recv = self.eval(f.value, env)
            args = [self.eval(a, env) for a in e.args]
            if f.attr == "startswith" and isinstance(recv, (str, AStr)) and len(args) == 1 and isinstance(args[0], tuple):
                units = self.as_astr(recv).units()
                for p in args[0]:
                    pre = self.as_astr(p).concrete()
                    if pre is None or any(not isinstance(u, str) for u in units[:len(pre)]):
                        raise Unsupported("startswith with abstract prefix")
                    if "".join(units[:len(pre)]) == pre:
                        return True
                return False
            if f.attr == "startswith" and isinstance(recv, (str, AStr)) and len(args) == 1:
                pre = self.as_astr(args[0]).concrete()
                units = self.as_astr(recv).units()
                if pre is None:
                    raise Unsupported("startswith with abstract prefix")
                head = units[:len(pre)]
                if any(not isinstance(u, str) for u in head):
                    raise Unsupported("startswith reaching into a label")
                return "".join(head) == pre
            if f.attr in ("isdigit", "isalpha", "isupper", "islower", "isalnum") and isinstance(recv, (str, AStr)) and not args:
                c = self.as_astr(recv).concrete()
                if c is None and f.attr == "isdigit":
                    # an order unit is exactly one character and that character is a digit (the reader appends str(order))
                    us = self.as_astr(recv).units()
                    if us and all((isinstance(u, tuple) and u[0] == "order") or (isinstance(u, str) and u.isdigit()) for u in us):
                        return True
                if c is None:
                    raise Unsupported("%s on an abstract string" % f.attr)
                return getattr(c, f.attr)()
            if f.attr in ("strip", "lstrip", "rstrip", "upper", "lower", "replace", "removeprefix", "removesuffix") and isinstance(recv, str) and \
                    all(isinstance(a, str) for a in args) and not e.keywords:
                return getattr(recv, f.attr)(*args)
            if f.attr == "replace" and isinstance(recv, str) and len(args) == 3 and isinstance(args[0], str) and isinstance(args[1], str) and \
                    isinstance(args[2], int) and not isinstance(args[2], bool) and not e.keywords:
                return recv.replace(*args)
            if f.attr in ("isnumeric", "isdecimal", "isspace", "isidentifier", "isascii") and isinstance(recv, str) and not args:
                return getattr(recv, f.attr)()
            if f.attr in ("count", "find", "index", "rfind", "endswith") and isinstance(recv, str) and len(args) == 1 and isinstance(args[0], str) and not e.keywords:
                try:
                    return getattr(recv, f.attr)(args[0])
                except ValueError:
                    raise Raised("ValueError")
            if f.attr in ("split", "rsplit", "partition", "rpartition") and isinstance(recv, str) and len(args) == 1 and isinstance(args[0], str) and not e.keywords:
                r_ = getattr(recv, f.attr)(args[0])
                return list(r_) if isinstance(r_, list) else tuple(r_)
            if f.attr in ("items", "keys", "values") and isinstance(recv, dict) and not args:
                return {"items": lambda d: [(k, v) for k, v in d.items()], "keys": lambda d: list(d.keys()), "values": lambda d: list(d.values())}[f.attr](recv)
            if f.attr == "join" and isinstance(recv, str) and len(args) == 1 and isinstance(args[0], (list, tuple)) and all(isinstance(x, str) for x in args[0]):
                return recv.join(args[0])
            if f.attr == "append" and isinstance(recv, list) and len(args) == 1:
                recv.append(args[0])
                return None
            if f.attr == "remove" and isinstance(recv, list) and len(args) == 1:
                for i, x in enumerate(recv):
                    if self.eq(x, args[0]):
                        del recv[i]
                        return None
                raise Raised("ValueError")
            if f.attr == "copy" and isinstance(recv, list) and not args:
                return list(recv)
            if f.attr == "pop" and isinstance(recv, dict) and 1 <= len(args) <= 2:
                for kk in list(recv):
                    if self.eq(kk, args[0]):
                        return recv.pop(kk)
                if len(args) == 2:
                    return args[1]
                raise Raised("KeyError")
            if f.attr == "pop" and isinstance(recv, list) and len(args) <= 1:
                if not recv:
                    raise Raised("IndexError")
                return recv.pop(args[0]) if args else recv.pop()
            if f.attr == "get" and isinstance(recv, dict) and 1 <= len(args) <= 2:
                for kk, vv in recv.items():
                    if self.eq(kk, args[0]):
                        return vv
                return args[1] if len(args) == 2 else None
            if f.attr == "get" and isinstance(recv, ADict) and 1 <= len(args) <= 2:
                v = recv.d.get(args[0], MISSING)
                if v is MISSING:
                    return args[1] if len(args) == 2 else None
                return v
            if f.attr == "format" and isinstance(recv, str):
                return "<formatted>"
            raise Unsupported("method call .%s at line %d" % (f.attr, e.lineno))
        if isinstance(f, ast.Name):
            if f.id == "isinstance" and len(e.args) == 2:
                tnode = e.args[1]
                tnames = [t.id for t in (tnode.elts if isinstance(tnode, ast.Tuple) else [tnode]) if isinstance(t, ast.Name)]
                py = {"str": (str, AStr), "list": (list,), "tuple": (tuple,), "int": (int,), "float": (float,), "dict": (dict,), "bool": (bool,), "set": (set,)}
                if tnames and all(t in py for t in tnames) and len(tnames) == len(tnode.elts if isinstance(tnode, ast.Tuple) else [tnode]):
                    v = self.eval(e.args[0], env)
                    if isinstance(v, (str, AStr, list, tuple, int, float, dict, bool, set)) or v is None:
                        return any(isinstance(v, py[t]) and not (t == "int" and isinstance(v, bool)) for t in tnames)
                raise Unsupported("isinstance with an abstract value or unknown type")
            args = [self.eval(a, env) for a in e.args]
            if f.id == "len" and len(args) == 1 and isinstance(args[0], (list, tuple, dict)):
                return len(args[0])
            if f.id == "int" and len(args) == 1 and isinstance(args[0], AStr) and args[0].concrete() is not None:
                args = [args[0].concrete()]
            if f.id == "int" and len(args) == 1 and isinstance(args[0], (int, str)) and not isinstance(args[0], bool):
                try:
                    return int(args[0])
                except ValueError:
                    return args[0]
            if f.id in ("list", "tuple") and len(args) == 1 and isinstance(args[0], (list, tuple)):
                return list(args[0]) if f.id == "list" else tuple(args[0])
            if f.id == "str" and len(args) == 1 and isinstance(args[0], (str, AStr)):
                return args[0]
            if f.id == "str" and len(args) == 1 and isinstance(args[0], (int, float, bool)) or (f.id == "str" and len(args) == 1 and args[0] is None):
                return str(args[0])
            if f.id in ("tuple", "list") and len(args) == 1 and isinstance(args[0], (list, tuple)):
                return tuple(args[0]) if f.id == "tuple" else list(args[0])
            if f.id == "bool" and len(args) == 1:
                return self.truth(args[0])
            if f.id in ("set", "frozenset") and len(args) == 1 and isinstance(args[0], (list, tuple, dict, ASet)) and not e.keywords:
                return self._as_set(list(args[0]))
            if f.id == "frozenset" and not args and not e.keywords:
                return ASet()
            if f.id in ("list", "dict", "tuple", "set") and not args and not e.keywords:
                return {"list": list, "dict": dict, "tuple": tuple, "set": set}[f.id]()
            if f.id == "enumerate" and 1 <= len(args) <= 2 and isinstance(args[0], (list, tuple, str)) and not e.keywords:
                start = args[1] if len(args) == 2 else 0
                if isinstance(start, int):
                    return [(i + start, x) for i, x in enumerate(args[0])]
            if f.id == "zip" and args and all(isinstance(a, (list, tuple, dict)) for a in args) and not e.keywords:
                return [tuple(x) for x in zip(*[list(a) for a in args])]
            if f.id == "dict" and len(args) == 1 and not e.keywords and isinstance(args[0], (list, tuple)) and \
                    all(isinstance(x, tuple) and len(x) == 2 for x in args[0]):
                try:
                    return dict(args[0])
                except TypeError:
                    raise Unsupported("dict() over unhashable abstract keys")
            if f.id == "dict" and len(args) == 1 and not e.keywords and isinstance(args[0], dict):
                return dict(args[0])
            if f.id == "iter" and len(args) == 1:
                if isinstance(args[0], (list, tuple, dict, str, AStr, set, frozenset)):
                    return list(args[0]) if not isinstance(args[0], AStr) else args[0]
                if args[0] is None or isinstance(args[0], (int, float, bool)):
                    raise Raised("TypeError")
                raise Unsupported("iter() of an abstract value")
        raise Unsupported("call %s at line %d" % (ast.unparse(f), e.lineno))


def _load(target):
    t = ast.parse(ast.unparse(target), mode="eval").body
    return t
