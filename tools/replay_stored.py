#!/usr/bin/env python3
"""Static regression replay of everything stored under /verif/seeded and /verif/selftest/benign.

    tools/replay_stored.py [--repo /repo] [--jobs 14] [--write]

Every stored patch is applied to a scratch copy of the package (the working tree of --repo, outside /repo and /verif,
removed afterwards) and the checks are run on the copy; nothing of the package is executed.

  seeded/<name>/          the check of the seed's own property must exit 1 (a VIOLATION);
                          exit 2 (undecided) and exit 0 (silent) are listed
  selftest/benign/<name>/ all twenty checks must exit 0; exit 1 is a false alarm, exit 2 an undecided anchor
  A patch whose meta.json carries "superseded_by" (it was made before a later `fix:` commit rewrote the lines it touches)
  and that no longer applies is counted as superseded, not as a failure.

This is a tool for working on the rules (the numbers in DESIGN.md sections 13 and 14 come from it and from
tools/eval_seed.py / tools/eval_benign.py, which also run the demonstrations); it is not one of the registered checks.
With --write the result is stored as selftest/REPLAY.json.
"""
import json
import os
import shutil
import subprocess
import sys
import tempfile
from concurrent.futures import ThreadPoolExecutor

VERIF = os.path.dirname(os.path.dirname(os.path.abspath(__file__)))
PROPS = ["C%02d" % i for i in range(1, 21)]


def scratch_base():
    for d in ("/dev/shm", tempfile.gettempdir()):
        if os.path.isdir(d) and os.access(d, os.W_OK):
            return d
    return tempfile.gettempdir()


def run_check(prop, repo):
    r = subprocess.run([os.path.join(VERIF, "check"), prop, "--repo", repo, "--no-write"], cwd=VERIF, capture_output=True, text=True)
    first = [l.strip() for l in (r.stdout + r.stderr).splitlines() if "rule=" in l or l.startswith("ANALYSIS-ERROR")]
    return r.returncode, (first[0][:220] if first else "")


def one(args):
    kind, name, path, repo, base = args
    meta = {}
    try:
        meta = json.load(open(os.path.join(path, "meta.json")))
    except Exception:
        pass
    prop = meta.get("property") or name.split("-")[-2][-3:]
    d = tempfile.mkdtemp(prefix="cgslint_replay_", dir=base)
    try:
        shutil.copytree(os.path.join(repo, "cgsmiles"), os.path.join(d, "cgsmiles"), ignore=shutil.ignore_patterns("__pycache__"))
        for extra in ("docs",):
            if os.path.isdir(os.path.join(repo, extra)):
                shutil.copytree(os.path.join(repo, extra), os.path.join(d, extra))
        r = subprocess.run(["patch", "-p1", "-s", "-i", os.path.join(path, "patch.diff")], cwd=d, capture_output=True, text=True)
        if r.returncode != 0:
            if meta.get("superseded_by"):
                # made against a tree before a later `fix:` commit that rewrote the same lines
                return {"kind": kind, "name": name, "property": prop, "status": "superseded", "first": "superseded by fix " + meta["superseded_by"]}
            return {"kind": kind, "name": name, "property": prop, "status": "patch-does-not-apply"}
        if kind == "seed":
            rc, first = run_check(prop, d)
            return {"kind": kind, "name": name, "property": prop, "status": {0: "silent", 1: "detected", 2: "undecided"}.get(rc, "rc%d" % rc), "first": first}
        fa, un, firsts = [], [], []
        for p in PROPS:
            rc, first = run_check(p, d)
            if rc == 1:
                fa.append(p)
                firsts.append(p + " " + first)
            elif rc != 0:
                un.append(p)
                firsts.append(p + " " + first)
        return {"kind": kind, "name": name, "property": prop, "status": "false-alarm" if fa else ("undecided" if un else "silent"),
                "false_alarms": fa, "undecided": un, "first": firsts[:4]}
    finally:
        shutil.rmtree(d, ignore_errors=True)


def main():
    argv = sys.argv[1:]
    repo = argv[argv.index("--repo") + 1] if "--repo" in argv else "/repo"
    jobs = int(argv[argv.index("--jobs") + 1]) if "--jobs" in argv else 14
    base = scratch_base()
    work = []
    for kind, root in (("seed", os.path.join(VERIF, "seeded")), ("benign", os.path.join(VERIF, "selftest", "benign"))):
        if not os.path.isdir(root):
            continue
        for name in sorted(os.listdir(root)):
            path = os.path.join(root, name)
            if os.path.isfile(os.path.join(path, "patch.diff")):
                work.append((kind, name, path, repo, base))
    with ThreadPoolExecutor(max_workers=jobs) as ex:
        results = list(ex.map(one, work))
    tally = {}
    for r in results:
        tally.setdefault(r["kind"], {}).setdefault(r["status"], 0)
        tally[r["kind"]][r["status"]] += 1
    for r in results:
        want = "detected" if r["kind"] == "seed" else "silent"
        if r["status"] not in (want, "superseded"):
            print("%-7s %-12s %-10s %s" % (r["kind"], r["name"], r["status"], "; ".join(r["first"]) if isinstance(r.get("first"), list) else r.get("first", "")))
    print(json.dumps(tally, sort_keys=True))
    if "--write" in argv:
        with open(os.path.join(VERIF, "selftest", "REPLAY.json"), "w") as fh:
            json.dump({"tally": tally, "not_as_wanted": [r for r in results if r["status"] not in ("detected" if r["kind"] == "seed" else "silent", "superseded")]}, fh, indent=1, sort_keys=True)
            fh.write("\n")
    return 0


if __name__ == "__main__":
    sys.exit(main())
