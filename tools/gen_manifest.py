#!/usr/bin/env python3
"""Regenerate /verif/MANIFEST.json from cgslint/props.py (run from /verif)."""
import json
import os
import sys

HERE = os.path.dirname(os.path.dirname(os.path.abspath(__file__)))
sys.path.insert(0, HERE)
from cgslint import props  # noqa: E402

TECH = {
    "TT": "truth-table extraction by abstract evaluation", "PROV": "dataflow provenance on canonical access paths", "PAIR": "consume-on-use path rule",
    "TRIP": "loop trip-count rule", "ORD": "CFG must-pass-through / dominance", "OWN": "effect summaries (ownership)", "TAB": "literal table agreement",
    "DA": "definite assignment", "EXC": "exception-flow rule", "KEY": "key-space typing", "NORM": "normaliser provenance", "SIB": "sibling agreement",
    "DET": "determinism scan", "TOK": "tokenizer dispatch/effect table", "EMIT": "emission model over guard assignments", "SENT": "sentinel-confusion rule", "NULL": "optional-parameter guard rule (dereference only under the not-None test)",
    "SEL": "selection rule over a backward slice (which component / element is chosen)", "IDX": "index-bound and scan-coverage rule (incl. parsed regular expressions)",
}


def main():
    checks = []
    for pid in sorted(props.PROPERTIES):
        spec = props.PROPERTIES[pid]
        fams = []
        for oid in spec["floors"]:
            f = oid.split(".")[0]
            if f not in fams:
                fams.append(f)
        checks.append({
            "property_id": pid,
            "quick_cmd": "./check %s" % pid,
            "thorough_cmd": "./check %s --tier thorough" % pid,
            "evidence_file": "/verif/evidence/%s.json" % pid,
            "replay_cmd_template": "./check %s --replay {path}" % pid,
            "engine": "cgslint",
            "level_claimed": {
                "category": "other",
                "text": "static necessary conditions, decided on every path of /repo's current source without running it. Decided: %s. "
                        "NOT decided (stated, not claimed): %s." % (spec["decided"], spec["undecided"]),
                "design_ref": "DESIGN.md section 4, %s; obligation index section 9" % pid,
            },
            "level_note": "trusted base: CPython's ast/compile, the hand-built CFG/dataflow engine in /verif/cgslint, the oracle tables in /verif/spec "
                          "(restating documentation and property statements), documented semantics of networkx / pysmiles / RDKit calls. "
                          "A vanished anchor or uninterpretable construct yields ANALYSIS-ERROR (exit 2), never a verdict.",
            "technique": "static analysis (python ast, own CFG + dataflow): " + "; ".join(TECH.get(f, f) for f in fams),
        })
    manifest = {
        "version": 1,
        "setup_cmd": "true",
        "hooks": {
            "guard": "CGSMILES_VERIF",
            "enable": "no hooks: the checks parse /repo's sources as they are and never build, import or run them",
            "baseline_off_cmd": "cd /repo && /venv/bin/python -m pytest -ra -q -p no:cacheprovider --timeout=900 --continue-on-collection-errors",
            "source_commits": [],
            "add_only": True,
        },
        "engines": [{
            "name": "cgslint", "path": "/verif/cgslint", "serves_properties": sorted(props.PROPERTIES),
            "kind_free_text": "repository-specific static analyser: python ast, hand-built statement CFG with dominators, reaching definitions, canonical "
                              "access paths, abstract evaluator for finite predicate tables, effect/sharing summaries, emission models; stdlib only",
        }],
        "checks": checks,
        "notes": "Technique family: static analysis only. Every check rebuilds its model from /repo's working tree on every run (30 ms parse, < 1 s per "
                 "property). Thorough tier adds the checker's self-validation (mutants generated from the current source into a scratch directory) and "
                 "the bytecode cross-check of the definite-assignment analysis. Known findings: /verif/known_findings.json. Repairs of genuine defects "
                 "are unguarded 'fix:' commits in /repo (listed as 'fixed:' entries in known_findings.json).",
        "not_applicable": [],
    }
    with open(os.path.join(HERE, "MANIFEST.json"), "w") as fh:
        json.dump(manifest, fh, indent=1)
    print("wrote MANIFEST.json with %d checks" % len(checks))


if __name__ == "__main__":
    main()
