#!/usr/bin/env python3
"""Evaluate one behaviour-preserving change: tools/eval_benign.py <worktree> <dir> <property> [--keep <name>]

1. demo passes on the clean worktree, 2. patch applies, 3. the 150 tests pass, 4. demo still passes (behaviour recorded
from the clean tree is unchanged), 5. every check is run (statically) against the patched worktree: exit 0 is what is
wanted, exit 1 is a false alarm, exit 2 an undecided anchor, 6. worktree restored.
With --keep the change is copied to /verif/selftest/benign/<name>/ together with meta.json.
"""
import json
import os
import shutil
import subprocess
import sys

VERIF = os.path.dirname(os.path.dirname(os.path.abspath(__file__)))
PY = "/venv/bin/python"


def sh(cmd, cwd, env=None, timeout=900):
    e = dict(os.environ)
    e.update(env or {})
    r = subprocess.run(cmd, cwd=cwd, env=e, capture_output=True, text=True, timeout=timeout)
    return r.returncode, r.stdout + r.stderr


def main():
    wt, seed, prop = sys.argv[1:4]
    keep = sys.argv[sys.argv.index("--keep") + 1] if "--keep" in sys.argv else None
    env = {"PYTHONPATH": wt, "PYTHONDONTWRITEBYTECODE": "1"}
    res = {"worktree": wt, "dir": seed, "property": prop}
    sh(["git", "checkout", "--", "cgsmiles"], wt)
    patch = os.path.join(seed, "patch.diff")
    demo = os.path.join(seed, "demo.py")
    rc, out = sh([PY, "-B", demo], wt, env)
    res["demo_clean_rc"] = rc
    rc, out = sh(["git", "apply", "--whitespace=nowarn", patch], wt)
    res["apply_rc"] = rc
    if rc != 0:
        res["apply_out"] = out[-400:]
        print(json.dumps(res, indent=1))
        return 1
    try:
        rc, out = sh([PY, "-B", "-m", "pytest", "-q", "-p", "no:cacheprovider", "-x"], wt, env)
        res["tests_rc"] = rc
        res["tests_tail"] = out.strip().splitlines()[-1] if out.strip() else ""
        rc, out = sh([PY, "-B", demo], wt, env)
        res["demo_patched_rc"] = rc
        res["demo_patched_tail"] = out.strip()[-300:]
        fired = {}
        for i in range(1, 21):
            p = "C%02d" % i
            rc, out = sh([os.path.join(VERIF, "check"), p, "--repo", wt, "--no-write"], VERIF)
            if rc != 0:
                lines = [l for l in out.splitlines() if l.startswith(("VIOLATION", "  construct", "  reason", "ANALYSIS-ERROR", "  cgsmiles"))]
                fired[p] = {"rc": rc, "lines": lines[:8]}
        res["checks_nonzero"] = fired
        res["false_alarms"] = sorted(k for k, v in fired.items() if v["rc"] == 1)
        res["undecided"] = sorted(k for k, v in fired.items() if v["rc"] == 2)
    finally:
        sh(["git", "checkout", "--", "cgsmiles"], wt)
    res["valid"] = res["demo_clean_rc"] == 0 and res.get("tests_rc") == 0 and res.get("demo_patched_rc") == 0
    print(json.dumps(res, indent=1))
    if keep and res["valid"]:
        d = os.path.join(VERIF, "selftest", "benign", keep)
        os.makedirs(d, exist_ok=True)
        for f in ("patch.diff", "demo.py", "notes.md"):
            if os.path.exists(os.path.join(seed, f)):
                shutil.copy(os.path.join(seed, f), os.path.join(d, f))
        meta = {"property": prop, "valid": True,
                "what_i_ran": ["demo.py on the clean worktree (exit 0)", "git apply patch.diff", "150 tests (pass)", "demo.py on the patched worktree (exit 0: behaviour unchanged)",
                               "./check C01..C20 --repo <patched worktree> --no-write"],
                "tests_tail": res.get("tests_tail"),
                "checks_reporting_violation (false alarms)": res["false_alarms"],
                "checks_undecided": res["undecided"],
                "reports": {k: v["lines"][:4] for k, v in fired.items()}}
        with open(os.path.join(d, "meta.json"), "w") as fh:
            json.dump(meta, fh, indent=1)
    return 0


if __name__ == "__main__":
    sys.exit(main())
