#!/usr/bin/env python3
"""Re-base stored patches after a `fix:` commit in /repo:  tools/rebase_superseded.py <commit prefix used in superseded_by>

For every stored patch (seeded/, selftest/benign/) whose meta.json says `superseded_by: <commit> ...` the patch is applied with
`patch -F3` to a scratch worktree (/tmp/wt_a, a detached worktree of /repo's HEAD that must exist), turned back into a diff
against HEAD, and re-validated with tools/eval_seed.py / tools/eval_benign.py (demonstration and the 150 tests).  The result
(ok / why not) is written to /tmp/rebased/result_<commit>.json and the re-based copies to /tmp/rebased/<name>/; nothing under
/verif is changed by this tool - copying the re-based patches back and editing meta.json is done by hand (DESIGN 18.3, 18.6).
"""
import json, os, subprocess, sys, shutil
wt='/tmp/wt_a'
tag=sys.argv[1]
ok=[];bad=[]
for base,kind in (('/verif/seeded','seed'),('/verif/selftest/benign','benign')):
    for d in sorted(os.listdir(base)):
        m=os.path.join(base,d,'meta.json'); pp=os.path.join(base,d,'patch.diff')
        if not os.path.exists(m): continue
        meta=json.load(open(m))
        if not str(meta.get('superseded_by','')).startswith(tag): continue
        subprocess.run(['git','checkout','--','.'],cwd=wt); subprocess.run(['git','clean','-fdq'],cwd=wt)
        r=subprocess.run(['patch','-p1','-F3','-s','--no-backup-if-mismatch','-i',pp],cwd=wt,capture_output=True,text=True)
        rej=subprocess.run('find . -name "*.rej" -o -name "*.orig"',shell=True,cwd=wt,capture_output=True,text=True).stdout.strip()
        if r.returncode!=0 or rej:
            bad.append((d,'does not apply')); continue
        newdiff=subprocess.run(['git','diff'],cwd=wt,capture_output=True,text=True).stdout
        # compile check
        c=subprocess.run(['/venv/bin/python','-B','-m','compileall','-q','cgsmiles'],cwd=wt,capture_output=True,text=True)
        subprocess.run(['git','checkout','--','.'],cwd=wt)
        tmpd='/tmp/rebased/'+d; os.makedirs(tmpd,exist_ok=True)
        for f in os.listdir(os.path.join(base,d)):
            shutil.copy(os.path.join(base,d,f),tmpd)
        open(os.path.join(tmpd,'patch.diff'),'w').write(newdiff)
        tool='/verif/tools/eval_seed.py' if kind=='seed' else '/verif/tools/eval_benign.py'
        e=subprocess.run(['/venv/bin/python',tool,wt,tmpd,meta['property']],capture_output=True,text=True)
        try:
            res=json.loads(e.stdout)
        except Exception:
            bad.append((d,'eval unreadable')); continue
        valid = res.get('valid_seed') if kind=='seed' else (res.get('demo_clean_rc')==0 and res.get('tests_rc')==0 and res.get('demo_patched_rc')==0)
        if valid:
            ok.append((d,kind,{k:v['rc'] for k,v in res.get('checks_nonzero',{}).items()}))
        else:
            bad.append((d,'invalid after rebase: clean=%s tests=%s patched=%s'%(res.get('demo_clean_rc'),res.get('tests_rc'),res.get('demo_patched_rc'))))
print("OK");[print(x) for x in ok]
print("BAD");[print(x) for x in bad]
json.dump({'ok':ok,'bad':bad},open('/tmp/rebased/result_%s.json'%tag[:7],'w'))
